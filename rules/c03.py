"""C03 — each yielded IVP point is a step of the advertised numerical method.

The method *is* its constants plus the wiring of one loop body; both are in the source.

R3.1  Runge–Kutta: the effective Butcher tableau (A, b, c, e) *as RungeKuttaSolver::step consumes* the
      coefficient functions (layout model of nalgebra composed with the stage loops) is explicit, satisfies
      c_i = Σ a_ij and the rooted-tree order conditions, and equals the published Fehlberg 4(5) /
      Bogacki–Shampine 3(2) tableau (the checker's copies are validated by the same conditions on every run).
R3.2  classical RK4 start-up of Adams and BDF (siblings): tableau, time advance, coherent history pushes.
R3.3  Adams: predictor = Adams–Bashforth, corrector = Adams–Moulton (weights generated from their definition),
      implicit derivative at (t+dt, predictor), estimate = c·‖corrector − predictor‖/dt.
R3.4  BDF: both residuals are the BDF-k / BDF-(k−1) formulas (generated), each with its own vector; the residual is
      evaluated at t+dt by secant/jac_finite_diff; the accepted state is the higher-order solve.
R3.5  finite-difference Jacobian of the BDF solve.
R3.6  Adams history lock-step on the accepted path.
R3.7  Euler: y' = y + dt·f(t, y), t' = t + dt, the pre-update pair is yielded.
Not decided: that Broyden's iteration converges to the root of the residual (numerical).
"""
from fractions import Fraction

import sympy as sp

from bsa import nalg, sym
from bsa.hir import Missing, callee, peel, place, pp, walk
from refs import butcher, multistep
from rules import fdjac
from rules import ivp_model as M

LEVEL = "other"

PUBLISHED = {"RKCoefficients45": ("Fehlberg 4(5)", butcher.FEHLBERG45), "RK23Coefficients": ("Bogacki–Shampine 3(2)", butcher.BOGACKI_SHAMPINE32)}


def fr(x):
    return str(x)


def check_rk(F, run, name):
    selfty, O = M.RK_IMPLS[name]
    pubname, pub = PUBLISHED[name]
    dp = "ivp::rk::" + name
    run.check(butcher.validate_reference(pub), "R3.1-reference", dp, "self-validation", "refs/butcher.py",
              "the checker's copy of the %s tableau fails its own order conditions" % pubname)
    try:
        t = M.rk_effective_tableau(F, selfty, O)
    except (Missing, sym.Unsupported) as e:
        run.broken("R3.1", dp, "extraction", "src/ivp/rk.rs", "cannot extract the effective tableau: %s" % e)
        return None
    for fn, (body, _v) in t["raw"].items():
        run.analysed(body)
    run.analysed(t["step"])
    run.analysed(t["solve"])
    step_loc = F.loc(t["step"])
    kloc = F.loc(t["raw"]["k_coefficients"][0])
    A, b, c, e = t["A"], t["b"], t["c"], t["e"]
    # explicit method: no stage may read a stage value of the previous step / a later stage
    for (i, j, v) in t["stale"]:
        run.fail("R3.1-explicit", dp + "::k_coefficients", "A[%d][%d]" % (i, j), kloc,
                 "stage %d reads stage %d (weight %s) before it is computed in this step, i.e. the stale value of the previous step: "
                 "the stage matrix is not strictly lower triangular as consumed (stored transposed?)" % (i + 1, j + 1, v))
    for i in range(O):
        for j in range(O):
            if j >= i:
                run.check(A[i][j] == 0, "R3.1-explicit", dp + "::k_coefficients", "A[%d][%d]" % (i, j), kloc,
                          "a[%d][%d] = %s is on or above the diagonal of an explicit method" % (i + 1, j + 1, A[i][j]))
    if not t["stale"]:
        run.ok("R3.1-explicit", "no-stale", "%s: every stage input is y + dt·Σ_{j<i} a_ij k_j of the same step" % name)
    for i in range(O):
        run.check(sum(A[i]) == c[i], "R3.1-rowsum", dp, "c[%d]" % i, kloc,
                  "c_%d = %s but Σ_j a_%dj = %s: the stage is not evaluated at the time its state approximates" % (i + 1, c[i], i + 1, sum(A[i])),
                  sample="c_%d = Σ a_%dj = %s" % (i + 1, i + 1, c[i]))
    # order conditions
    p, phat = pub["p"], pub["phat"]
    for tr, r in butcher.residuals(A, b, p):
        run.check(r == 0, "R3.1-order", dp + "::avg_coefficients", "b:tree=%s" % butcher.show(tr), F.loc(t["raw"]["avg_coefficients"][0]),
                  "propagated weights violate the order-%d condition of tree %s (Σ b_i Φ_i − 1/γ = %s)" % (p, butcher.show(tr), r),
                  sample="Σ b_i Φ_i(%s) = 1/%d" % (butcher.show(tr), butcher.gamma(tr)))
    comp_ok = None
    for sgn in (1, -1):
        bh = [bi + sgn * ei for bi, ei in zip(b, e)]
        res = butcher.residuals(A, bh, phat)
        if all(r == 0 for _, r in res):
            comp_ok = sgn
    eloc = F.loc(t["raw"]["error_coefficients"][0])
    run.check(sum(e) == 0, "R2.3-sum", dp + "::error_coefficients", "sum", eloc,
              "error weights sum to %s, not 0: the estimate does not vanish for a constant derivative" % sum(e), sample="Σ e_i = 0")
    if comp_ok is None:
        res = butcher.residuals(A, [bi + ei for bi, ei in zip(b, e)], phat)
        bad = [(butcher.show(tr), r) for tr, r in res if r != 0][:3]
        run.fail("R3.1-order", dp + "::error_coefficients", "companion", eloc,
                 "neither b+e nor b−e satisfies the order-%d conditions (e.g. %s): Σ e_i k_i is not the difference of two embedded methods" % (phat, bad))
    else:
        run.obligations += len(butcher.residuals(A, b, phat))
        run.discharged += len(butcher.residuals(A, b, phat))
        run.ok("R3.1-order", "companion", "b %s e satisfies all order-%d conditions" % ("+" if comp_ok > 0 else "−", phat))
    # equality with the published tableau
    pA = [[Fraction(x) for x in row] for row in pub["A"]]
    for i in range(O):
        for j in range(O):
            run.check(A[i][j] == pA[i][j], "R3.1-published", dp + "::k_coefficients", "A[%d][%d]" % (i, j), kloc,
                      "a[%d][%d] = %s as consumed, %s has %s" % (i + 1, j + 1, A[i][j], pubname, pA[i][j]))
        run.check(c[i] == pub["c"][i], "R3.1-published", dp + "::t_coefficients", "c[%d]" % i, F.loc(t["raw"]["t_coefficients"][0]),
                  "c_%d = %s, %s has %s" % (i + 1, c[i], pubname, pub["c"][i]))
        run.check(b[i] == pub["b"][i], "R3.1-published", dp + "::avg_coefficients", "b[%d]" % i, F.loc(t["raw"]["avg_coefficients"][0]),
                  "b_%d = %s, %s has %s" % (i + 1, b[i], pubname, pub["b"][i]))
        d = pub["bhat"][i] - pub["b"][i]
        run.check(e[i] == d or e[i] == -d, "R3.1-published", dp + "::error_coefficients", "e[%d]" % i, eloc,
                  "e_%d = %s, %s has ±%s" % (i + 1, e[i], pubname, d))
    signs = {(1 if e[i] == pub["bhat"][i] - pub["b"][i] else -1) for i in range(O) if pub["bhat"][i] != pub["b"][i]}
    run.check(len(signs) == 1, "R3.1-published", dp + "::error_coefficients", "one-sign", eloc, "error weights mix the signs of b̂ − b")
    # wiring facts
    run.check(sym.is_zero(t["time_new"] - (sym.S("time") + sym.S("dt"))), "R3.1-wiring", "RungeKuttaSolver::step", "time-advance:" + name, step_loc,
              "accepted step advances time to %s" % t["time_new"])
    K = [s for s, _, _, _ in t["stages"]]
    want = sum(Fraction(ei) * k for ei, k in zip(e, K))
    inner = t["norm"].args[0]
    homo = sym.is_zero(sp.expand(inner / sym.S("dt")) - sum(sp.Rational(ei.numerator, ei.denominator) * k for ei, k in zip(e, K)))
    lhs = t["accept"].lhs if hasattr(t["accept"], "lhs") else None
    run.check(homo and lhs is not None and sym.is_zero(lhs - t["norm"] / sym.S("dt")), "R2.3-estimate", "RungeKuttaSolver::step", "per-unit-step:" + name, step_loc,
              "error estimate is %s, expected ‖Σ e_i k_i‖/dt (per unit step)" % lhs, sample="estimate = %s" % lhs)
    return t


def check_rk4_startup(F, run, kind, solver_prefix, impl_selfty, O):
    dp = solver_prefix + "::runge_kutta"
    try:
        sb, fields, raw = M.solver_fields(F, kind, impl_selfty, O)
        r = M.rk4_startup(F, solver_prefix, fields, O)
    except (Missing, sym.Unsupported) as e:
        run.broken("R3.2", dp, "extraction", "src/ivp", "cannot extract the start-up iteration: %s" % e)
        return None
    body = r["body"]
    run.analysed(body)
    where = F.loc(body)
    ref = butcher.RK4
    t, dt, y = sym.S("time"), sym.S("dt"), sym.S("y")
    run.check(r["range_ok"], "R3.2", dp, "iterations", where, "the loop does not run exactly `iterations` times (0..iterations)")
    for key in ("first", "later"):
        x = r[key]
        okA = x["A"] == [[Fraction(v) for v in row] for row in ref["A"]]
        run.check(okA and x["b"] == ref["b"] and x["c"] == ref["c"], "R3.2", dp, "rk4-tableau:" + key, where,
                  "start-up iteration is not the classical RK4 step: A=%s b=%s c=%s" % ([[fr(v) for v in row] for row in x["A"]], [fr(v) for v in x["b"]], [fr(v) for v in x["c"]]),
                  sample="%s: A, b, c = classical RK4" % key)
        run.check(sym.is_zero(x["time_new"] - (t + dt)), "R3.2", dp, "time-advance:" + key, where, "iteration advances time to %s" % x["time_new"])
    # pushes: none in the first iteration; in later iterations the *pre-update* point (end of the previous iteration)
    run.check(not [l for l in r["first"]["log"] if l[1] == "push_back"], "R3.2", dp, "no-initial-point", where,
              "the first iteration pushes the initial point into the history (it must hold only t0+dt … t0+m·dt)")

    def coherent(log, calls, tag):
        vals = [l for l in log if l[0] == "prev_values" and l[1] == "push_back"]
        ders = [l for l in log if l[0] == "prev_derivatives" and l[1] == "push_back"]
        good = len(vals) == 1 and isinstance(vals[0][2], tuple) and sym.is_zero(vals[0][2][0] - t) and sym.is_zero(vals[0][2][1] - y)
        run.check(good, "R3.2", dp, "push-value:" + tag, where, "history push is %s, expected the coherent pair (time, state)" % [str(v[2]) for v in vals],
                  sample="%s pushes (time, state)" % tag)
        if kind == "adams":
            g2 = len(ders) == 1
            if g2:
                c = [u for u in calls if u[0] is ders[0][2]]
                g2 = len(c) == 1 and len(c[0][2]) == 2 and sym.is_zero(c[0][2][0] - t) and sym.is_zero(c[0][2][1] - y)
            run.check(g2, "R3.2", dp, "push-derivative:" + tag, where, "derivative history push is not f(time, state) of the pushed point")
        else:
            run.check(not ders, "R3.2", dp, "push-derivative:" + tag, where, "unexpected derivative push")
    coherent(r["later"]["log"], r["later"]["calls"], "later-iteration")
    coherent(r["after"]["log"], r["after"]["calls"], "after-loop")
    return r


def check_adams(F, run, name):
    selfty, O = M.ADAMS_IMPLS[name]
    dp = "ivp::adams::" + name
    try:
        a = M.adams_step(F, selfty, O)
    except (Missing, sym.Unsupported) as e:
        run.broken("R3.3", dp, "extraction", "src/ivp/adams.rs", "cannot extract the predictor/corrector sums: %s" % e)
        return
    for fn, (body, _v) in a["raw"].items():
        run.analysed(body)
    run.analysed(a["step"])
    where = F.loc(a["step"])
    it = a["it"]
    t, dt, y = sym.S("time"), sym.S("dt"), sym.S("y")
    k = O - 1
    calls = it.user_calls
    if not run.check(len(calls) == 1, "R3.3", dp, "PEC", where, "the accepted path evaluates the derivative %d times (PEC mode evaluates once)" % len(calls)):
        return
    K0, _pl, args, node = calls[0]
    run.check(sym.is_zero(args[0] - (t + dt)), "R3.3", dp, "implicit-time", F.loc(a["step"], node),
              "implicit derivative is evaluated at time %s, expected time + dt" % args[0], sample="f(time+dt, predictor)")
    pred = sp.expand((args[1] - y) / dt)
    ab = multistep.adams_bashforth(k)
    Fh = a["F"]
    for j in range(k):
        got = M.to_frac(pred.coeff(Fh[k - 1 - j]))
        run.check(got == ab[j], "R3.3-predictor", dp + "::predictor_coefficients", "age=%d" % j, F.loc(a["raw"]["predictor_coefficients"][0]),
                  "predictor weight of the derivative %d step(s) back is %s, Adams–Bashforth-%d has %s" % (j, got, k, ab[j]),
                  sample="β_%d = %s" % (j, got))
    rest = sp.expand(pred - sum(pred.coeff(f) * f for f in Fh))
    run.check(rest == 0, "R3.3-predictor", dp, "only-history", where, "predictor has extra terms %s" % rest)
    ynew = it.fields["self.state"]
    corr = sp.expand((ynew - y) / dt)
    am = multistep.adams_moulton(k)
    got = M.to_frac(corr.coeff(K0))
    run.check(got == am[0], "R3.3-corrector", dp + "::corrector_coefficients", "implicit", F.loc(a["raw"]["corrector_coefficients"][0]),
              "corrector weight of the implicit derivative is %s, Adams–Moulton-%d has %s" % (got, k, am[0]))
    for j in range(k):
        got = M.to_frac(corr.coeff(Fh[k - 1 - j]))
        run.check(got == am[j + 1], "R3.3-corrector", dp + "::corrector_coefficients", "age=%d" % j, F.loc(a["raw"]["corrector_coefficients"][0]),
                  "corrector weight of the derivative %d step(s) back is %s, Adams–Moulton-%d has %s" % (j, got, k, am[j + 1]),
                  sample="β*_%d = %s" % (j, got))
    rest = sp.expand(corr - corr.coeff(K0) * K0 - sum(corr.coeff(f) * f for f in Fh))
    run.check(rest == 0, "R3.3-corrector", dp, "only-history", where, "corrector has extra terms %s" % rest)
    run.check(sym.is_zero(it.fields["self.time"] - (t + dt)), "R3.3", dp, "time-advance", where, "accepted step advances time to %s" % it.fields["self.time"])
    # estimate
    acc = [c for n, c in a["conds"] if "norm" in str(c)]
    good = False
    if acc:
        lhs = acc[0].lhs
        na = list(lhs.atoms(sp.Function("norm")))
        if len(na) == 1:
            coef = sp.simplify(lhs / na[0] * dt)
            good = coef.is_Rational and coef > 0 and sym.is_zero(sp.expand(na[0].args[0]) - sp.expand(ynew - args[1])) or \
                (coef.is_Rational and coef > 0 and sym.is_zero(sp.expand(na[0].args[0]) + sp.expand(ynew - args[1])))
    run.check(good, "R2.3-estimate", dp, "milne", where, "error estimate is not c·‖corrector − predictor‖/dt with a positive rational c",
              sample="estimate = %s" % (acc[0].lhs if acc else None))
    # R3.6 history lock-step on the accepted path
    ops = {}
    for nm, what, arg, node in a["log"]:
        if what in ("push_back", "pop_front", "clear"):
            ops.setdefault(nm, []).append(what)
    run.check(ops.get("prev_values") == ops.get("prev_derivatives") and ops.get("prev_values"), "R3.6", "AdamsSolver::step", "accepted-path:" + name, where,
              "value history ops %s and derivative history ops %s differ on the accepted path" % (ops.get("prev_values"), ops.get("prev_derivatives")),
              sample="both histories: %s" % ops.get("prev_values"))
    pushes = [(nm, arg) for nm, what, arg, node in a["log"] if what == "push_back"]
    okp = any(nm == "prev_derivatives" and arg is K0 for nm, arg in pushes) and \
        any(nm == "prev_values" and isinstance(arg, tuple) and sym.is_zero(arg[0] - (t + dt)) and sym.is_zero(arg[1] - ynew) for nm, arg in pushes)
    run.check(okp, "R3.6", "AdamsSolver::step", "pushes-new-point:" + name, where,
              "the accepted step does not push the new (time, state) pair and its derivative")


def check_bdf(F, run, name):
    selfty, O = M.BDF_IMPLS[name]
    dp = "ivp::bdf::" + name
    k = O - 1
    try:
        r = M.bdf_residuals(F, selfty, O)
    except (Missing, sym.Unsupported) as e:
        run.broken("R3.4", dp, "extraction", "src/ivp/bdf.rs", "cannot extract the residual closures: %s" % e)
        return
    for fn, (body, _v) in r["raw"].items():
        run.analysed(body)
    run.analysed(r["step"])
    step = r["step"]
    Y = r["Y"]
    yy, tt, dt = sym.S("y_arg"), sym.S("t_arg"), sym.S("dt")
    if not run.check(set(r["closures"]) == {"higher_func", "lower_func"} or len(r["closures"]) == 2, "R3.4", dp, "two-residuals", F.loc(step),
                     "expected two residual closures, found %s" % sorted(r["closures"])):
        return
    kinds = {}
    for cname, c in r["closures"].items():
        v = sp.expand(c["value"])
        calls = c["calls"]
        cw = F.loc(step, c["node"])
        if not run.check(len(calls) == 1 and [str(a) for a in calls[0][2]] == ["t_arg", "y_arg"], "R3.4", dp, "f(t,y):" + cname, cw,
                         "residual does not evaluate the derivative exactly once at its own (t, y) arguments"):
            continue
        fsym = calls[0][0]
        ycoef = v.coeff(yy)
        if ycoef == 0:
            run.fail("R3.4", dp, "leading:" + cname, cw, "residual has no y term")
            continue
        v = sp.expand(v / ycoef)
        beta = M.to_frac(sp.simplify(-v.coeff(fsym) / dt))
        alphas = [M.to_frac(v.coeff(Y[O - j])) for j in range(1, O)]     # α_1 (newest) … α_{O-1}
        rest = sp.expand(v - yy - v.coeff(fsym) * fsym - sum(v.coeff(Y[O - j]) * Y[O - j] for j in range(1, O)))
        run.check(rest == 0, "R3.4", dp, "terms:" + cname, cw, "residual has unexpected terms %s (reads a history entry outside the k newest?)" % rest)
        matched = None
        for kk in (k, k - 1):
            rb, ra = multistep.bdf(kk)
            if beta == rb and alphas[:kk] == ra and all(x == 0 for x in alphas[kk:]):
                matched = kk
        kinds[cname] = (matched, beta, alphas)
    # identify roles by use: the accepted state comes from secant(first closure)
    role = {}
    for n in walk(step["body"], into_closures=False):
        if n.get("k") == "LetS" and n.get("init", {}).get("k") == "Try":
            e = peel(n["init"]["e"])
            if e.get("k") == "MCall" and e["name"] == "secant" and e["args"]:
                a0 = peel(e["args"][0])
                if a0.get("k") == "Local":
                    role[n["pat"].get("name")] = a0["name"]
                elif a0.get("k") in ("Closure", "Path"):           # residual written in place, or a method passed by path
                    for cname, c in r["closures"].items():
                        if c["node"] is a0 or (a0.get("k") == "Path" and c["node"].get("k") == "Path" and c["node"].get("def") == a0.get("def")):
                            role[n["pat"].get("name")] = cname
    acc = [n for n in walk(step["body"], into_closures=False) if n.get("k") == "Assign" and place(n["l"]) == "self.state" and peel(n["r"]).get("k") == "Local"
           and peel(n["r"])["name"] in role]
    if not run.check(len(acc) == 1, "R3.4", dp, "accepted-solve", F.loc(step), "cannot find `self.state = <result of secant(residual)>`"):
        return
    hi_closure = role[peel(acc[0]["r"])["name"]]
    lo_closure = [c for c in role.values() if c != hi_closure]
    for cname, want in ((hi_closure, k), (lo_closure[0] if lo_closure else None, k - 1)):
        if cname is None or cname not in kinds:
            run.fail("R3.4", dp, "role", F.loc(step), "missing residual closure for BDF-%d" % want)
            continue
        matched, beta, alphas = kinds[cname]
        rb, ra = multistep.bdf(want)
        cw = F.loc(step, r["closures"][cname]["node"])
        src = "higher_coefficients" if want == k else "lower_coefficients"
        run.check(matched == want, "R3.4-formula", dp + "::" + src, "%s=BDF%d" % (cname, want), cw,
                  "residual `%s` is y − (%s)·h·f + Σ %s·y_{n+1−j}; BDF-%d is β = %s, α = %s" % (cname, beta, [fr(x) for x in alphas], want, rb, [fr(x) for x in ra]),
                  sample="%s: β = %s, α = %s = BDF-%d" % (cname, beta, [fr(x) for x in alphas], want))
        run.obligations += want
        run.discharged += want if matched == want else 0
    # error estimate = ‖higher − lower‖
    # residual time argument in secant / jac_finite_diff
    n_sites = 0
    for fn in ("secant", "jac_finite_diff"):
        b = F.fn("ivp::bdf::BDFSolver::<'a, N, D, O, T, F>::" + fn)
        run.analysed(b)
        for n in walk(b["body"]):
            if n.get("k") == "Call" and "ovl" in n and place(n["f"]) == "g":
                n_sites += 1
                it = nalg.NInterp(F, b, {"O": O})
                it.fields["self.time"] = sym.S("time")
                it.fields["self.dt"] = sym.S("dt")
                # a hoisted `let next_time = (self.time + self.dt).real()` is fine as long as this function does not move time or dt itself
                moves = [x for x in walk(b["body"]) if x.get("k") in ("Assign", "AssignOp") and place(x["l"]) in ("self.time", "self.dt")]
                if not moves:
                    from bsa import cfg
                    for st_ in cfg.preceding_statements(b["body"], n):
                        if st_.get("k") == "LetS" and "init" in st_ and "Mut)" not in st_["pat"].get("mode", ""):
                            try:
                                it.run_stmt(st_)
                            except Exception:
                                pass
                try:
                    tv = it.ev(n["args"][1])
                    good = sym.is_zero(tv - (sym.S("time") + sym.S("dt")))
                except sym.Unsupported as u:
                    tv, good = str(u), False
                if name == "BDF6Coefficients":
                    run.check(good, "R3.4-time", "BDFSolver::" + fn, "residual-time#%d" % n_sites, F.loc(b, n),
                              "the implicit residual is evaluated at time %s, the BDF formula needs t_{n+1} = time + dt" % tv,
                              sample="g(self, time+dt, ..)")
    if name == "BDF6Coefficients":
        run.floor("R3.4-time", "BDFSolver", "residual evaluations in secant/jac_finite_diff", n_sites, 2)


def check_euler(F, run):
    step = M.method_of(F, "ivp::EulerSolver<", "IVPStepper", "step")
    run.analysed(step)
    where = F.loc(step)
    it = nalg.NInterp(F, step, {})
    it.fresh_user_symbols = True
    for nm in ("time", "dt", "end"):
        it.fields["self." + nm] = sym.S(nm)
    it.fields["self.state"] = sym.S("y")
    it.fields["self.data"] = sym.Opaque("data")
    it.if_hook = lambda i, n, c: False
    try:
        res = it.ev(step["body"])
    except sym.Return as r:
        res = r.value
    except sym.Unsupported as u:
        run.broken("R3.7", "EulerSolver::step", "body", where, str(u))
        return
    t, dt, y = sym.S("time"), sym.S("dt"), sym.S("y")
    calls = it.user_calls
    good = len(calls) == 1 and sym.is_zero(calls[0][2][0] - t) and sym.is_zero(calls[0][2][1] - y)
    run.check(good, "R3.7", "EulerSolver::step", "f(t,y)", where, "Euler does not evaluate f exactly once at (time, state)")
    if good:
        K = calls[0][0]
        run.check(sym.is_zero(it.fields["self.state"] - (y + dt * K)), "R3.7", "EulerSolver::step", "update", where,
                  "state update is %s, expected y + dt·f(t, y)" % it.fields["self.state"], sample="y' = y + dt·f(t,y)")
    run.check(sym.is_zero(it.fields["self.time"] - (t + dt)), "R3.7", "EulerSolver::step", "time-advance", where, "time update is %s" % it.fields["self.time"])
    okr = isinstance(res, sym.Variant) and res.name == "Ok" and isinstance(res.args[0], tuple) and sym.is_zero(res.args[0][0] - t) and sym.is_zero(res.args[0][1] - y)
    run.check(okr, "R3.7", "EulerSolver::step", "yields-pre-update-pair", where, "step returns %s, expected Ok((old time, old state))" % (res,))


def run(F, run, tier):
    for name in M.RK_IMPLS:
        check_rk(F, run, name)
    run.check(butcher.validate_reference(butcher.RK4), "R3.2", "refs", "rk4-self-validation", "refs/butcher.py", "reference RK4 fails its order conditions")
    ra = check_rk4_startup(F, run, "adams", "ivp::adams::AdamsSolver", M.ADAMS_IMPLS["AdamsCoefficients5"][0], 5)
    rb = check_rk4_startup(F, run, "bdf", "ivp::bdf::BDFSolver", M.BDF_IMPLS["BDF6Coefficients"][0], 7)
    if ra and rb:
        same = all(ra[k]["A"] == rb[k]["A"] and ra[k]["b"] == rb[k]["b"] and ra[k]["c"] == rb[k]["c"] for k in ("first", "later"))
        run.check(same, "R3.2", "runge_kutta", "siblings-agree", "src/ivp/adams.rs, src/ivp/bdf.rs", "the two RK4 start-up helpers differ")
    for name in M.ADAMS_IMPLS:
        check_adams(F, run, name)
    for name in M.BDF_IMPLS:
        check_bdf(F, run, name)
    # R3.6 protocol-level lock-step of the two Adams histories (typestate exploration shared with C01-R1.4)
    from rules import proto
    for name, (selfty, O) in list(M.ADAMS_IMPLS.items()) + list(M.BDF_IMPLS.items()):
        kind = "adams" if name in M.ADAMS_IMPLS else "bdf"
        try:
            P = proto.Proto(F, kind, selfty, O)
            r = P.explore()
        except (Missing, sym.Unsupported) as e:
            run.broken("R3.6", name, "exploration", "src/ivp", "cannot explore the step() protocol: %s" % e)
            continue
        # T3 (roll-back coherence) matters here too: a start-up redone from an incoherent (time, state) yields points that are
        # not steps of the method from the previously yielded point
        hits = {k: v for k, v in r["problems"].items() if k.startswith("R3.6") or k.startswith("T3")}
        for key, (what, node, st, labels) in hits.items():
            run.fail("R3.6" if key.startswith("R3.6") else "R3.2-T3", P.name, "%s:%s" % (key.split(":", 1)[1], name), F.loc(P.step, node) if node else F.loc(P.step), what)
        bad = {k: v for k, v in r["problems"].items() if k.startswith("unsupported") or k.startswith("state-limit")}
        for key, (what, node, st, labels) in bad.items():
            run.broken("R3.6", P.name, "%s:%s" % (name, key[:40]), F.loc(P.step), what)
        if not hits and not bad:
            run.ok("R3.6", name, "%s: histories aligned with the position at every formula read over %d transitions" % (name, len(r["transitions"])))
        run.obligations += len(r["transitions"])
        run.discharged += len(r["transitions"])
    fdjac.analyse(F, run, "C03", "R3.5", "bdf")
    # R3.8 the implicit BDF equations are solved by the same Broyden iteration as roots::secant: its inverse-Jacobian update (rules/broyden.py)
    from rules import broyden
    try:
        broyden.check(F, run, M.method_of(F, "ivp::bdf::BDFSolver<", None, "secant"), "R3.8", "BDFSolver::secant", 3 if tier == "thorough" else 2,
                      ("jac_inv", "shift", "derivative", "guess"))
    except Missing as e:
        run.broken("R3.8", "BDFSolver::secant", "anchor", "src/ivp/bdf.rs", str(e))
    check_euler(F, run)
    # every impl of the three coefficient traits must be one of the analysed ones
    known = {v[0] for v in list(M.RK_IMPLS.values()) + list(M.ADAMS_IMPLS.values()) + list(M.BDF_IMPLS.values())}
    for im in F.impls:
        tr = im.get("trait") or ""
        if any(x in tr for x in ("RungeKuttaCoefficients<", "AdamsCoefficients<", "BDFCoefficients<")):
            run.check(im["self_ty"] in known, "R3.1", im["self_ty"], "known-impl", "%s:%d" % (im["file"], im["sp"][0]),
                      "coefficient impl %s has no reference in the checker's instance table" % im["self_ty"])
    run.assumptions += ["exact real arithmetic (rounding is outside the domain)", "nalgebra 0.32 layout facts (column-major from_vec/from_column_slice/as_slice, row-major from_row_slice)",
                        "the derivative function is uninterpreted: results hold for every right-hand side"]
    expl = ("The effective Butcher tableaux are reconstructed from the coefficient functions *through* the layout of their constructors and "
            "the stage/update/error loops of the stepper (one abstract execution with the const generic instantiated), then checked in exact "
            "rationals against explicitness, row sums, all rooted-tree order conditions and the published tableaux; the RK4 start-up, the "
            "Adams–Bashforth/Moulton sums, both BDF residuals, the residual's evaluation time, the finite-difference Jacobian and Euler's update "
            "are extracted as lin-forms over an uninterpreted derivative and compared with formulas generated from their definitions.")
    return "other", expl, None
