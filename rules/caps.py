"""Iteration caps (shared by C07 R7.7 and C08 R8.3): the main loop is bounded by the caller's iteration cap.

Accepted forms (each confirmed by reading; the cap is an integer parameter of the function, or an immutable local computed from one):
  * `for _ in a..cap`, `for _ in a..=cap`, also through `.rev()` / `.step_by(k)` / `.take(m)`;
  * an up-counter:   `while n < cap` / `n <= cap` (or mirrored), the counter incremented by a positive literal on every completed
    iteration (every path that falls through the body passes an increment; no `continue`), and not written otherwise;
  * a down-counter:  `while remaining > 0` / `!= 0` / `>= 1` (or mirrored), the counter initialised from the cap before the loop and
    decremented by a positive literal on every completed iteration, not written otherwise.
"""
from bsa import cfg
from bsa.hir import callee, pat_binds, peel, walk

INT_TYPES = ("usize", "u8", "u16", "u32", "u64", "u128", "isize", "i8", "i16", "i32", "i64", "i128")


def must_reach(n, pred):
    """Every path that falls through n executes a node satisfying pred (diverging paths are vacuous)."""
    k = n.get("k")
    if pred(n):
        return True
    if k in ("ExprS", "Semi"):
        return must_reach(n["e"], pred)
    if k == "Block":
        seq = list(n["stmts"]) + ([n["expr"]] if n.get("expr") is not None else [])
        if any(cfg.div(s, ("Ret", "Break")) == cfg.TRUE for s in seq):
            return True
        return any(must_reach(s, pred) for s in seq)
    if k == "If":
        t = must_reach(n["t"], pred) or cfg.div(n["t"], ("Ret", "Break")) == cfg.TRUE
        e = "e" in n and (must_reach(n["e"], pred) or cfg.div(n["e"], ("Ret", "Break")) == cfg.TRUE)
        return t and e
    if k == "Match":
        return all(must_reach(a["body"], pred) or cfg.div(a["body"], ("Ret", "Break")) == cfg.TRUE for a in n["arms"])
    return False


def cap_ids(b):
    """Local ids that hold the iteration cap: integer parameters, and immutable integer locals whose initialiser mentions one (transitively)."""
    ids = set()
    for p in b["params"]:
        for q in _binds_with_ty(p):
            if q.get("ty") in INT_TYPES:
                ids.add(q["id"])
    changed = True
    while changed:
        changed = False
        for n in walk(b["body"]):
            if n.get("k") == "LetS" and n["pat"].get("k") == "Bind" and "init" in n and "Mut)" not in n["pat"].get("mode", "") and n["pat"]["id"] not in ids \
                    and n["pat"].get("ty") in INT_TYPES and mentions(n["init"], ids):
                ids.add(n["pat"]["id"])
                changed = True
    return ids


def _binds_with_ty(p):
    if isinstance(p, dict):
        if p.get("k") == "Bind":
            yield p
        for v in p.values():
            if isinstance(v, dict):
                yield from _binds_with_ty(v)
            elif isinstance(v, list):
                for x in v:
                    yield from _binds_with_ty(x)


def mentions(e, ids):
    return any(x.get("k") == "Local" and x["id"] in ids for x in walk(e))


def _lit_pos(e):
    e = peel(e)
    return e.get("lit") == "int" and int(e["v"]) > 0


def _lit_val(e):
    e = peel(e)
    return int(e["v"]) if e.get("lit") == "int" else None


def _writes(loop, cid):
    return [x for x in walk(loop["body"]) if x.get("k") in ("Assign", "AssignOp") and peel(x["l"]).get("k") == "Local" and peel(x["l"])["id"] == cid]


def _step(x, cid, op):
    """`c += k` / `c = c + k` (op Add) or `c -= k` / `c = c - k` (op Sub), k a positive literal."""
    if x.get("k") == "AssignOp" and x["op"] == op + "Assign" and peel(x["l"]).get("k") == "Local" and peel(x["l"])["id"] == cid and _lit_pos(x["r"]):
        return True
    if x.get("k") == "Assign" and peel(x["l"]).get("k") == "Local" and peel(x["l"])["id"] == cid:
        r = peel(x["r"])
        if r.get("k") == "Bin" and r["op"] == op and peel(r["l"]).get("k") == "Local" and peel(r["l"])["id"] == cid and _lit_pos(r["r"]):
            return True
        if op == "Add" and r.get("k") == "Bin" and r["op"] == "Add" and peel(r["r"]).get("k") == "Local" and peel(r["r"])["id"] == cid and _lit_pos(r["l"]):
            return True
    return False


def range_end(itx):
    """The upper bound expression of a range iterator (through rev / step_by / take / enumerate / into_iter), or None."""
    itx = peel(itx)
    while itx.get("k") == "MCall" and itx["name"] in ("rev", "step_by", "take", "enumerate", "into_iter", "skip"):
        itx = peel(itx["recv"])
    if itx.get("k") == "Struct" and itx.get("def", "").endswith("ops::Range"):
        return {f["name"]: f["e"] for f in itx["fields"]}.get("end")
    if itx.get("k") == "Call" and (callee(itx) or "").endswith("RangeInclusive::<Idx>::new"):
        return itx["args"][1]
    return None


def bounded_by_cap(b, loop):
    """-> (ok, form, why_not)."""
    caps = cap_ids(b)
    if not caps:
        return False, None, "the function has no integer parameter to bound the iteration"
    k = loop.get("k")
    if k == "For":
        hi = range_end(loop["iter"])
        if hi is None:
            return False, None, "the `for` loop does not iterate over a range"
        if not mentions(hi, caps):
            return False, None, "the range of the `for` loop does not end at the iteration cap"
        if any(x.get("k") == "Call" and "ovl" in x for x in walk(hi)):
            return False, None, "the range bound calls the user function"
        return True, "for-range", None
    if k != "While":
        return False, None, "the main loop is neither `for` over a range nor `while` on a counter"
    c = peel(loop["c"])
    neg = False
    while c.get("k") == "Un" and c.get("op") == "Not":
        neg = not neg
        c = peel(c["e"])
    if c.get("k") != "Bin" or c["op"] not in ("Lt", "Le", "Gt", "Ge", "Ne", "Eq"):
        return False, None, "the loop condition is not a comparison of a counter"
    l, r, op = peel(c["l"]), peel(c["r"]), c["op"]
    if neg:
        # `while !(a OP b)`: the complementary comparison (integers: total order)
        op = {"Lt": "Ge", "Le": "Gt", "Gt": "Le", "Ge": "Lt", "Ne": "Eq", "Eq": "Ne"}[op]
    if op == "Eq":
        return False, None, "the loop continues while a counter *equals* something"
    if op in ("Gt", "Ge"):
        l, r, op = r, l, {"Gt": "Lt", "Ge": "Le"}[op]          # normalise to l < r / l <= r
    conts = [x for x in walk(loop["body"], into_closures=False) if x.get("k") == "Continue"]
    # up-counter: cnt < cap
    if op in ("Lt", "Le") and l.get("k") == "Local" and l["id"] not in caps and mentions(r, caps) and not any(x.get("k") == "Call" and "ovl" in x for x in walk(r)):
        cid = l["id"]
        others = [x for x in _writes(loop, cid) if not _step(x, cid, "Add")]
        if must_reach(loop["body"], lambda x: _step(x, cid, "Add")) and not conts and not others and not _writes_any(loop, caps):
            return True, "up-counter", None
        return False, None, "the counter is not incremented on every completed iteration (or is written otherwise / skipped by `continue`)"
    # down-counter: 0 < rem, 1 <= rem, rem != 0
    cnt = None
    if op == "Lt" and _lit_val(l) == 0 and r.get("k") == "Local":
        cnt = r
    elif op == "Le" and _lit_val(l) == 1 and r.get("k") == "Local":
        cnt = r
    elif op == "Ne" and ((_lit_val(r) == 0 and l.get("k") == "Local") or (_lit_val(l) == 0 and r.get("k") == "Local")):
        cnt = l if l.get("k") == "Local" else r
    if cnt is not None:
        cid = cnt["id"]
        inits = [x for x in walk(b["body"]) if x.get("k") == "LetS" and x["pat"].get("k") == "Bind" and x["pat"]["id"] == cid and "init" in x]
        from_cap = len(inits) == 1 and mentions(inits[0]["init"], caps) and not any(x.get("k") == "Call" and "ovl" in x for x in walk(inits[0]["init"]))
        all_w = [x for x in walk(b["body"]) if x.get("k") in ("Assign", "AssignOp") and peel(x["l"]).get("k") == "Local" and peel(x["l"])["id"] == cid]
        others = [x for x in all_w if not _step(x, cid, "Sub")]
        dec_by_one_if_ne = op != "Ne" or all(_step(x, cid, "Sub") and _lit_val(x["r"] if x.get("k") == "AssignOp" else peel(x["r"])["r"]) == 1 for x in all_w)
        if from_cap and not others and not conts and dec_by_one_if_ne and must_reach(loop["body"], lambda x: _step(x, cid, "Sub")):
            return True, "down-counter", None
        return False, None, "the remaining-iterations counter is not initialised from the cap and decremented on every completed iteration"
    return False, None, "the loop condition does not compare a counter with the iteration cap"


def _writes_any(loop, ids):
    return [x for x in walk(loop["body"]) if x.get("k") in ("Assign", "AssignOp") and peel(x["l"]).get("k") == "Local" and peel(x["l"])["id"] in ids]
