"""Finite-difference Jacobian rule shared by C03 (BDF), C08 (roots) and C17 (Levenberg–Marquardt).

One symbolic iteration of the column loop is put in the lin-form domain: the stored column must be
Σ_k c_k·g(x + δ_k·e_col) with Σ c_k = 0 and Σ c_k δ_k = 1 (a consistent first-derivative stencil in the perturbed
coordinate), the perturbed coordinate is the column the value is stored in, and the perturbation is undone.
"""
import sympy as sp

from bsa import nalg, sym
from bsa.hir import Missing, peel, place, walk

SITES = {
    # def-path regex -> (vector param/local that is perturbed, user fn place, description)
    "bdf": ("ivp::bdf::BDFSolver::<'a, N, D, O, T, F>::jac_finite_diff", "x", "g"),
    "roots": ("roots::jac_finite_diff", "x", "f"),
    "optimize": ("optimize::jac_finite_differences", "params", "f"),
}


def analyse(F, run, prop, rule, site, soft=False):
    """soft: return False instead of failing closed when the loop leaves the symbolic-column sub-language (the caller then decides the same
    obligations on the concrete-shape evaluation of rules/lm.py)."""
    path, vecname, fname = SITES[site]
    b = F.fn(path)
    run.analysed(b)
    it = nalg.NInterp(F, b, {})
    it.symbolic_for = True
    it.fresh_user_symbols = True
    for k in ("dt", "time", "two"):
        it.fields["self." + k] = sym.S(k) if k != "two" else sp.Integer(2)
    it.fields["self.data"] = sym.Opaque("data")
    it.fields["self.dim"] = sym.Opaque("dim")
    base = sym.S(vecname.upper())
    vec = nalg.IndexedVec(base)
    it.set_local(vecname, vec)
    try:
        res = it.ev(b["body"])
    except sym.Return as r:
        res = r.value
    except sym.Unsupported as u:
        if soft:
            return False
        run.broken(rule, path, "body", F.loc(b, u.node if isinstance(u.node, dict) else None), "cannot interpret the Jacobian loop: %s" % u)
        return
    where = F.loc(b)
    calls = [c for c in it.user_calls if c[1] == fname or c[1].endswith("." + fname) or c[1] == fname]
    if not run.check(len(calls) >= 2, rule, path, "samples", where, "fewer than two function samples per column (%d)" % len(calls)):
        return
    run.call_sites += len(calls)
    if not it.stores:
        run.broken(rule, path, "store", where, "no store into the Jacobian found")
        return
    # perturbed coordinate
    coords = set()
    pert = {}
    for s_, pl, args, node in calls:
        vargs = [a for a in args if hasattr(a, "has") and a.has(base)]
        if len(vargs) != 1:
            run.broken(rule, path, "sample-arg", F.loc(b, node), "function sample does not take the perturbed vector")
            return
        d = sp.expand(vargs[0] - base)
        es = [x for x in d.free_symbols if x.name.startswith("e[")]
        if len(es) > 1:
            run.fail(rule, path, "one-coordinate", F.loc(b, node), "a sample perturbs more than one coordinate: %s" % d)
            return
        if es:
            coords.add(es[0].name[2:-1])
            pert[s_] = sp.simplify(d.coeff(es[0]))
        else:
            pert[s_] = sp.Integer(0)
    if len(coords) != 1:
        run.fail(rule, path, "one-coordinate", where, "samples perturb coordinates %s" % sorted(coords))
        return
    coord = coords.pop()
    # the stored value (last store wins per target index)
    name, idx, val, node = it.stores[-1]
    comp = None
    if isinstance(val, sp.Function) or (hasattr(val, "func") and str(getattr(val, "func", "")) == "at"):
        pass
    ats = list(val.atoms(sp.Function("at"))) if hasattr(val, "atoms") else []
    if ats:
        comp = ats[0].args[1]
        val = val.subs({a: a.args[0] for a in ats})
    val = sp.expand(val)
    syms = [s_ for s_, _, _, _ in calls]
    coeffs = {s_: sp.simplify(val.coeff(s_)) for s_ in syms}
    rest = sp.expand(val - sum(coeffs[s_] * s_ for s_ in syms))
    run.check(rest == 0, rule, path, "linear", F.loc(b, node), "stored value has a part that is not a combination of the samples: %s" % rest)
    s0 = sp.simplify(sum(coeffs.values()))
    s1 = sp.simplify(sum(coeffs[s_] * pert[s_] for s_ in syms))
    desc = " + ".join("(%s)·%s(x + (%s)·e)" % (coeffs[s_], fname, pert[s_]) for s_ in syms)
    run.check(s0 == 0, rule, path, "sum-of-weights", F.loc(b, node),
              "finite-difference weights sum to %s, not 0: %s is not a difference quotient (the samples are added instead of subtracted?)" % (s0, desc),
              sample=desc)
    run.check(s1 == 1, rule, path, "first-moment", F.loc(b, node),
              "Σ weight·perturbation = %s, not 1: %s does not approximate the derivative" % (s1, desc))
    # stored where? column index must be the perturbed coordinate
    idxs = [str(x) for x in (idx if isinstance(idx, tuple) else (idx,))] + ([str(comp)] if comp is not None else [])
    col_ok = coord in idxs or (site == "bdf")
    if site == "bdf":
        # the column view comes from column_iter_mut().enumerate(): (ind, col) in lock-step
        # (or the matrix itself is written with `set_column(<coordinate>, …)`)
        col_ok = (coord == "ind" and name == "col") or (coord in idxs and name != "col")
    run.check(col_ok, rule, path, "column=coordinate", F.loc(b, node),
              "derivative w.r.t. coordinate %s is stored at index %s of %s" % (coord, idxs, name), sample="∂/∂x[%s] stored at %s[%s]" % (coord, name, ",".join(idxs)))
    if site == "roots":
        run.check(comp is not None and str(comp) in idxs and str(idx[0] if isinstance(idx, tuple) else idx) == str(comp), rule, path, "row=component",
                  F.loc(b, node), "component %s of the sample difference is stored in row %s" % (comp, idxs[0]))
    # perturbation undone
    final = {k: sp.simplify(v) for k, v in vec.deltas.items()}
    run.check(all(v == 0 for v in final.values()), rule, path, "restored", where,
              "the perturbed vector is not restored after the column (net perturbation %s)" % final)
