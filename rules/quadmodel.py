"""Whole-function abstract execution of the table-driven quadrature drivers (shared by C09 and C10).

The driver is evaluated exactly (vecint.VInterp: lists, iterator chains, explicit loops, helper functions in place) with
  * the table constant replaced by a *synthetic* table of symbolic pairs (a few rules of one or two pairs each),
  * the integrand an uninterpreted atom f(x),
  * every undecided comparison forked (decision prefixes, as bsa.paths.explore does; a condition already decided on the path is not asked again).
Nothing is looked up by name or by syntactic shape: what the driver does with a rule is read off the values it returns.
"""
import signal

import sympy as sp

from bsa import sym, vecint
from bsa.hir import Missing
from rules import polyint as PI

TOLS = sp.Symbol("tol", positive=True)


class Path:
    def __init__(self, pc, result, interp):
        self.pc, self.result, self.interp = pc, result, interp

    def cond(self):
        return sp.And(*self.pc) if self.pc else sp.true


def make_cls(tables, base=vecint.VInterp):
    class Q(base):
        TABLES = tables

        def ev_Path(self, n):
            d = n.get("def")
            if d in self.TABLES:
                return self.TABLES[d]
            return base.ev_Path(self, n)

        def decide(self, c, n):
            # no sp.simplify of the (large) conditions: the explorer canonicalises the atoms itself
            if c is sp.true or c is True:
                return True
            if c is sp.false or c is False:
                return False
            r = self.if_hook(self, n, c)
            if r is None:
                raise sym.Unsupported(n, "undecided condition %s" % c)
            return r

        def user_call(self, pl, args, n):
            return sp.Function("f")(*[a for a in args if not isinstance(a, (sym.Opaque, sym.ClosureVal))])

        def ev_MCall(self, n):
            # the integrand is generic over ComplexField: `.real()` of a quantity built from its values drops a part (of a magnitude it is the identity:
            # sympy knows re(|z|) = |z|); everywhere else `.real()` stays the by-value conversion it is for the real quantities of the drivers
            if n["name"] in ("real", "to_real") and not n["args"]:
                rv = self.deref(self.ev(n["recv"]))
                if isinstance(rv, sp.Basic) and rv.atoms(sp.core.function.AppliedUndef):
                    return sp.re(rv)
                return rv
            return base.ev_MCall(self, n)
    return Q


def explore(F, body, args, tables, limit=400, seconds=60, force=None):
    """All paths of `body(args)` over the synthetic tables.  `force(c)` may pre-decide a condition (True/False) or return None to fork."""
    cls = make_cls(tables)
    out = []
    stack = [[]]
    while stack:
        prefix = stack.pop()
        decisions = list(prefix)
        pos = [0]
        pc = []
        assumed = []

        def hook(interp, n, c):
            if c in pc:
                return True
            if sp.Not(c) in pc:
                return False
            if isinstance(c, (sp.And, sp.Or)):
                # short-circuit evaluation of an already-evaluated compound: decide the operands one by one
                vals = []
                for a in c.args:
                    r = hook(interp, n, a)
                    vals.append(r)
                    if isinstance(c, sp.And) and not r:
                        return False
                    if isinstance(c, sp.Or) and r:
                        return True
                return isinstance(c, sp.And)
            if isinstance(c, sp.Not):
                return not hook(interp, n, c.args[0])
            # canonical atoms: Eq and strict Lt (the interpreter simplifies a negated test into its complement before asking)
            if isinstance(c, sp.Ne):
                return not hook(interp, n, sp.Eq(c.lhs, c.rhs, evaluate=False))
            if isinstance(c, sp.Ge):
                return not hook(interp, n, sp.Lt(c.lhs, c.rhs, evaluate=False))
            if isinstance(c, sp.Le):
                return not hook(interp, n, sp.Lt(c.rhs, c.lhs, evaluate=False))
            if isinstance(c, sp.Gt):
                return hook(interp, n, sp.Lt(c.rhs, c.lhs, evaluate=False))
            d = force(c) if force is not None else None
            if d is not None:
                if (c if d else sp.Not(c)) not in assumed:
                    assumed.append(c if d else sp.Not(c))
                return d
            if d is None:
                if pos[0] < len(decisions):
                    d = decisions[pos[0]]
                else:
                    d = True
                    stack.append(decisions[:pos[0]] + [False])
                    decisions.append(True)
                pos[0] += 1
            pc.append(c if d else sp.Not(c))
            return d
        v, it = PI.call(F, body, args, hook=hook, seconds=seconds, cls=cls)
        out.append(Path(list(pc), v, it))
        out[-1].assumed = list(assumed)
        if len(out) > limit:
            raise sym.Unsupported(body["body"], "more than %d paths through %s" % (limit, body["path"]))
    return out


def split(l):
    """Path literal -> (canonical atom, polarity); sympy rewrites Not(Eq) as Ne and Not(a < b) as a >= b."""
    if isinstance(l, sp.Not):
        a, pol = split(l.args[0])
        return a, not pol
    if isinstance(l, sp.Ne):
        return sp.Eq(l.lhs, l.rhs, evaluate=False), False
    if isinstance(l, sp.Ge):
        return sp.Lt(l.lhs, l.rhs, evaluate=False), False
    if isinstance(l, sp.Le):
        return sp.Lt(l.rhs, l.lhs, evaluate=False), False
    if isinstance(l, sp.Gt):
        return sp.Lt(l.rhs, l.lhs, evaluate=False), True
    return l, True


def polarity(p, atom):
    """True/False when the path decided `atom`, None when it never asked."""
    for l in p.pc:
        a, pol = split(l)
        if a == atom:
            return pol
    return None


def pair(tag):
    return (sp.Symbol("%s0" % tag, real=True), sp.Symbol("%s1" % tag, real=True))


def is_pair_cond(c, syms):
    fs = c.free_symbols
    return bool(fs) and fs <= set(syms) and not c.atoms(sp.Function)


def f_atom():
    return sp.Function("f")


def consumption(F, b, table_path):
    """How the driver turns one table pair (a0, a1) into weighted integrand values.

    Run 1: a table of twice the same one-pair rule; the second rule agrees with the first, so the driver returns the rule's value v(a0, a1) — on
    each side of its (at most one) test on the pair.  Run 2: one two-pair rule twice; the value must be the sum of the two pairs' values (the
    per-rule reduction is a plain sum).  Returns (cond or None, v_true, v_false, paths analysed)."""
    a = pair("a")
    rule = [a]
    ps = explore(F, b, [sp.Symbol("userfn"), TOLS], {table_path: [rule, rule]})
    oks = [p for p in ps if isinstance(p.result, sym.Variant) and p.result.name == "Ok"]
    if not oks:
        raise Missing("%s: no path returns Ok on a table of two identical rules" % b["path"])
    conds = []
    for p in ps:
        for l in p.pc:
            base = split(l)[0]
            if is_pair_cond(base, a) and base not in conds:
                conds.append(base)
    if len(conds) > 1:
        raise Missing("%s: more than one test on the table pair: %s" % (b["path"], conds))
    cond = conds[0] if conds else None
    res = {}
    for p in oks:
        side = polarity(p, cond) if cond is not None else None
        v = sp.expand(p.result.args[0])
        if side in res and not sym.is_zero(res[side] - v):
            raise Missing("%s: the value of a rule is not a function of the rule (%s vs %s)" % (b["path"], res[side], v))
        res[side] = v
    if cond is None:
        if None not in res:
            raise Missing("%s: no rule value" % b["path"])
        v_true = v_false = res[None]
    else:
        if True not in res or False not in res:
            raise Missing("%s: the test %s on the pair has a side without a successful path" % (b["path"], cond))
        v_true, v_false = res[True], res[False]
    return cond, v_true, v_false, len(ps)


def check_sum(F, b, table_path, cond, v_true, v_false):
    """Two pairs in one rule: the rule's value is the sum of the pairs' values, for every combination of the pair test."""
    a, c = pair("a"), pair("b")
    rule = [a, c]
    ps = explore(F, b, [sp.Symbol("userfn"), TOLS], {table_path: [rule, rule]})
    n = 0
    bad = []
    sub = {a[0]: c[0], a[1]: c[1]}
    for p in ps:
        if not (isinstance(p.result, sym.Variant) and p.result.name == "Ok"):
            continue

        def side(pr):
            if cond is None:
                return False
            cc = cond.subs(sub, simultaneous=True) if pr is c else cond
            return polarity(p, cc)
        sa, sc = side(a), side(c)
        if sa is None or sc is None:
            bad.append("a successful path does not test both pairs: [%s]" % p.cond())
            continue
        want = (v_true if sa else v_false) + (v_true if sc else v_false).subs(sub, simultaneous=True)
        n += 1
        if not sym.is_zero(sp.expand(p.result.args[0]) - sp.expand(want)):
            bad.append("with two pairs the rule's value is %s, expected the sum of the pairs' values %s" % (p.result.args[0], want))
    if n == 0:
        bad.append("no successful path with a two-pair rule")
    return n, bad


# ---- structural normal form of the values returned by the abstract execution ---------------------------------------------------------------
def canon(e):
    """Expanded form with the arguments of Abs/log expanded as well (Abs(−x) and Abs(x) coincide in sympy)."""
    if not isinstance(e, sp.Basic) or e.is_Atom:
        return e
    if isinstance(e, sp.Abs):
        return sp.Abs(canon(e.args[0]))
    if isinstance(e, sp.log):
        return sp.log(canon(e.args[0]))
    if isinstance(e, (sp.Add, sp.Mul, sp.Pow)):
        return sp.expand(e.func(*[canon(a) for a in e.args]))
    return e.func(*[canon(a) for a in e.args])


def same(a, b):
    return canon(sp.sympify(a) - sp.sympify(b)) == 0


# ---- tanh–sinh driver ------------------------------------------------------------------------------------------------------------------------
def de_table(lengths):
    return [[(sp.Symbol("w%d_%d" % (l, j), real=True), sp.Symbol("x%d_%d" % (l, j), real=True)) for j in range(n)] for l, n in enumerate(lengths)]


def de_reference(tab):
    """The double-exponential recursion: I_-1 = π f(0); S_l = Σ w (f(x) + f(−x)); δ_l = |I_(l-1)/2 − S_l|; I_l = I_(l-1)/2 + S_l."""
    f = f_atom()
    cur = sp.pi * f(sp.Integer(0))
    I, D = [], []
    for row in tab:
        S = sum((w * (f(x) + f(-x)) for (w, x) in row), sp.Integer(0))
        D.append(sp.Abs(cur / 2 - S))
        cur = cur / 2 + S
        I.append(cur)
    return I, D


class Fact:
    def __init__(self, kind, level, pol, form=None, const=None, lit=None):
        self.kind, self.level, self.pol, self.form, self.const, self.lit = kind, level, pol, form, const, lit

    def __repr__(self):
        return "%s%s(level %s%s%s)" % ("" if self.pol else "not ", self.kind, self.level, ", " + self.form if self.form else "", ", %s" % self.const if self.const is not None else "")


def classify_de(p, D, tol=TOLS):
    """Every literal of a path of the tanh–sinh driver as a fact about the reference quantities; None for a literal that is none of them."""
    facts = []
    for l in p.pc:
        atom, pol = split(l)
        fact = None
        if isinstance(atom, sp.Eq):
            for k, d in enumerate(D):
                if same(atom.lhs - atom.rhs, d) or same(atom.rhs - atom.lhs, d):
                    fact = Fact("zero-change", k, pol, lit=l)
        elif isinstance(atom, sp.Lt):
            lhs, rhs = atom.lhs, atom.rhs
            if not atom.atoms(sp.log):
                # X < tol  /  tol <= X
                if rhs == tol or same(rhs, tol):
                    for k, d in enumerate(D):
                        for form, e in (("delta", d), ("delta^2", d ** 2), ("zero", sp.Integer(0))):
                            if fact is None and same(lhs, e):
                                fact = Fact("below-tol", k if form != "zero" else None, pol, form=form, lit=l)
                elif lhs == tol or same(lhs, tol):
                    for k, d in enumerate(D):
                        for form, e in (("delta", d), ("delta^2", d ** 2)):
                            if fact is None and same(rhs, e):
                                fact = Fact("above-tol", k, pol, form=form, lit=l)
            else:
                # c < r   or   r < c   with r = ln δ_l / ln δ_(l−1)
                for k in range(1, len(D)):
                    r = sp.log(D[k]) / sp.log(D[k - 1])
                    if lhs.is_number and same(rhs, r):
                        fact = Fact("ratio-above", k, pol, const=sp.nsimplify(lhs), lit=l)
                    elif rhs.is_number and same(lhs, r):
                        fact = Fact("ratio-below", k, pol, const=sp.nsimplify(rhs), lit=l)
        facts.append(fact if fact is not None else Fact("unrecognised", None, True, lit=l))
    return facts
