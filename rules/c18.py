"""C18 — orthogonal polynomial constructors return the exact classical polynomials.

The property's quantifier is finite (five families × n = 0..20): each constructor is evaluated abstractly for every n in
exact rational arithmetic (crate bodies inlined) and compared with the classical polynomial (sympy's closed forms).
R18.1  coefficients equal the classical rational coefficients, for every n = 0..20.
R18.2  the result has exactly n+1 coefficients (degree exactly n, non-zero leading coefficient).
R18.3  the requested zero tolerance is the tolerance of the returned polynomial.
R18.4  exact path only: no polynomial×polynomial product inside a constructor goes through dft/idft (the FFT path
       computes with cos/sin in floating point and leaves leading noise, so the degree is no longer exact).
"""
import sympy as sp

from bsa import sym, vecint
from bsa.hir import Missing
from rules import polyint as PI

LEVEL = "other"

X = sp.Symbol("x")
FAMILIES = {
    "legendre": ("special::polynomial::legendre", lambda n: sp.legendre(n, X)),
    "hermite": ("special::polynomial::hermite", lambda n: sp.hermite(n, X)),
    "laguerre": ("special::polynomial::laguerre", lambda n: sp.laguerre(n, X)),
    "chebyshev": ("special::polynomial::chebyshev", lambda n: sp.chebyshevt(n, X)),
    "chebyshev_second": ("special::polynomial::chebyshev_second", lambda n: sp.chebyshevu(n, X)),
}


class FftEntered(Exception):
    pass


F32_MAX = sp.Rational(340282346638528859811704183484516925440)


class CInterp(vecint.VInterp):
    def binop(self, op, a, b, n):
        # range bookkeeping for R18.5: the largest scalar divisor and the largest scalar value met on the way (exact numbers; the polynomial operators are
        # inlined, so every coefficient operation passes here)
        v = vecint.VInterp.binop(self, op, a, b, n)
        try:
            if op in ("Div", "DivAssign") and getattr(b, "is_number", False) and not str(n.get("ty", "")).startswith(("u", "i")):
                m = abs(b)
                if m > self.shared.get("max_div", 0):
                    self.shared["max_div"] = m
            if getattr(v, "is_number", False) and v.is_finite and not str(n.get("ty", "")).startswith(("u", "i")):
                m = abs(v)
                if m > self.shared.get("max_val", 0):
                    self.shared["max_val"] = m
        except Exception:
            pass
        return v

    def ev_MCall(self, n):
        if n["name"] in ("dft", "idft") and (n.get("def") or "").startswith("polynomial::Polynomial"):
            raise FftEntered()
        return vecint.VInterp.ev_MCall(self, n)

    def ev_Call(self, n):
        from bsa.hir import callee
        if (callee(n) or "").endswith("Polynomial::<N>::idft"):
            raise FftEntered()
        return vecint.VInterp.ev_Call(self, n)


def run(F, run, tier):
    NMAX = 20
    total = 0
    # both ends of the property's tolerance range: comparisons of genuine (tiny) coefficients with the zero tolerance are decided exactly
    TOLS = [sp.Rational(1, 10 ** 6), sp.Rational(1, 10 ** 14)]
    for fam, (path, ref) in FAMILIES.items():
      b = F.fn(path)
      run.analysed(b)
      where = F.loc(b)
      for tol in TOLS:
        fft_ns = []
        for n in range(0, NMAX + 1):
            inst = "n=%d,tol=1e-%d" % (n, len(str(tol.q)) - 1)
            try:
                v, it = PI.call(F, b, [sp.Integer(n), tol], seconds=60, cls=CInterp)
            except FftEntered:
                fft_ns.append(n)
                continue
            except vecint.IndexPanic as e:
                run.fail("R18.1", path, "panic:" + inst, where, "abstract execution panics: %s" % e.why)
                continue
            except sym.Unsupported as u:
                run.broken("R18.1", path, inst, F.loc(b, u.node if isinstance(u.node, dict) else None), str(u))
                if isinstance(u, vecint.Budget):
                    break
                continue
            total += 1
            if not (isinstance(v, sym.Variant) and v.name == "Ok"):
                run.fail("R18.1", path, "result:" + inst, where, "constructor returns %r" % (v,))
                continue
            P = v.args[0]
            cs = PI.coeffs(P)
            want = sp.Poly(ref(n), X).all_coeffs()[::-1]
            run.check(len(cs) == len(want) and all(sym.is_zero(a - w) for a, w in zip(cs, want)), "R18.1", path, "coefficients:" + inst, where,
                      "%s(%d) has coefficients %s, the classical polynomial has %s" % (fam, n, [str(c) for c in cs][:8], [str(c) for c in want][:8]),
                      sample="%s(%d) = %s" % (fam, n, [str(c) for c in cs][:6]))
            run.check(len(cs) == n + 1 and not sym.is_zero(cs[-1]), "R18.2", path, "degree:" + inst, where,
                      "%s(%d) has %d coefficients (leading %s): the degree is not exactly n" % (fam, n, len(cs), cs[-1] if cs else None))
            run.check(P.get("tolerance") == tol, "R18.3", path, "tolerance:" + inst, where,
                      "the returned polynomial's zero tolerance is %s, not the requested one" % P.get("tolerance"))
            # R18.5 "for every index in the range where the monomial form is representable": the way there must be representable too, in every coefficient
            # field the constructors are generic over — f32 is the narrowest, and a complex division squares its divisor's modulus (num-complex: norm_sqr)
            md, mv = it.shared.get("max_div", 0), it.shared.get("max_val", 0)
            if tol == TOLS[0]:
                run.check(md ** 2 < F32_MAX and mv < F32_MAX, "R18.5", path, "range:n=%d" % n, where,
                          "%s(%d) meets the scalar value %s and divides by %s on the way: %s exceeds the f32 range (3.4e38) — over Complex<f32> the division's squared modulus overflows "
                          "and the high coefficients come out 0 or NaN although the result is representable" % (fam, n, sp.N(mv, 4), sp.N(md, 4), "the divisor squared" if md ** 2 >= F32_MAX else "a value"),
                          sample="%s(%d): max divisor %s, max value %s" % (fam, n, sp.N(md, 3), sp.N(mv, 3)))
        run.check(not fft_ns, "R18.4", path, "exact-path:tol=1e-%d" % (len(str(tol.q)) - 1), where,
                  "for n in %s the constructor multiplies two polynomials of three or more coefficients, which goes through the floating-point FFT (dft/idft): "
                  "the coefficients are no longer exact and spurious leading noise raises the degree" % (fft_ns[:12],),
                  sample="%s: every product has a factor with at most two coefficients" % fam)
    run.floor("R18.1", "special::polynomial", "constructor evaluations", total, 200)
    run.extra["exhaustive"] = True
    run.assumptions += ["exact rational arithmetic stands for the floating-point evaluation (the statement's 'up to rounding')",
                        "classical polynomials: sympy.legendre/hermite/laguerre/chebyshevt/chebyshevu"]
    expl = ("The five constructors are evaluated abstractly for every n = 0..20 (the property's whole quantifier) in exact rational arithmetic with the crate's own "
            "operator bodies inlined; coefficients, exact degree and the tolerance of the result are compared with the classical polynomials, and any entry into the "
            "floating-point FFT multiplication path is reported.")
    return "other", expl, None
