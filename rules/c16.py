"""C16 — cubic splines interpolate, are C2 and honour their end conditions (identities over the constructed pieces).

`spline_free` / `spline_clamped` are evaluated abstractly (crate bodies inlined, exact arithmetic) on symbolic ordinates and
end slopes over knots with symbolic positive spacings (n <= 3) and exact rational knots (n <= 6):
R16.1  guards: length mismatch, fewer than two points, decreasing knots give Err; evaluation outside the knot range and on an
       empty spline gives Err, inside it evaluates the piece whose closed range contains x.
R16.3  piece identities: every piece is a cubic on its own range; S_i(x_i) = y_i, S_i(x_{i+1}) = y_{i+1}; S', S'' continuous at
       every interior knot; free: S''(x_0) = S''(x_n) = 0; clamped: S'(x_0) = f_0, S'(x_n) = f_n.
       (Together these identities characterise the unique spline, so the sweep R16.2 is verified through its result.)
R16.4  assembly: the stored range of piece i is (x_i, x_{i+1}).
R16.5  consequences: a clamped spline reproduces a cubic, a free spline a straight line.
Not decided: rounding.
"""
import sympy as sp

from bsa import sym, vecint
from bsa.hir import Missing
from rules import polyint as PI

LEVEL = "other"
X = sp.Symbol("x", real=True)


def expr_of(cs):
    return sum(c * X ** k for k, c in enumerate(cs))


def knots(kind, n):
    if kind == "symbolic":
        x0 = sp.Symbol("x0", real=True)
        hs = [sp.Symbol("h%d" % i, positive=True) for i in range(n - 1)]
        xs = [x0]
        for h in hs:
            xs.append(xs[-1] + h)
        return xs
    base = [sp.Rational(*t) for t in ((-3, 1), (-5, 2), (-1, 3), (1, 50), (3, 4), (5, 1), (11, 2))]
    return base[:n]


def check_spline(F, run, fn, clamped, kind, n, cplx=False):
    b = F.fn("interp::spline::" + fn)
    xs = knots(kind, n)
    ys = PI.csymbols("y", n) if cplx else PI.symbols("y", n)
    if cplx == "imaginary":
        # purely imaginary ordinates: the real parts are collinear (all zero) while the data are not — a collinearity or zero test on one component misfires
        ys = [sp.I * sp.Symbol("yi%d" % k, real=True) for k in range(n)]
    f0, fn_ = sp.Symbol("f0", real=True), sp.Symbol("fn", real=True)
    if cplx:
        # complex ordinates and end slopes over real knots (a dropped or conjugated imaginary part is invisible with real data)
        f0, fn_ = f0 + sp.I * sp.Symbol("f0i", real=True), fn_ + sp.I * sp.Symbol("fni", real=True)
    inst = "%s-%d%s" % (kind, n, ("-imaginary" if cplx == "imaginary" else "-complex") if cplx else "")
    dp = "interp::spline::" + fn
    where = F.loc(b)
    args = [list(xs), list(ys)] + ([(f0, fn_)] if clamped else []) + [PI.TOL]
    try:
        v, it = PI.call(F, b, args, seconds=90)
    except vecint.IndexPanic as e:
        run.fail("R16.3", dp, "panic:" + inst, where, "abstract execution panics: %s" % e.why)
        return None
    except sym.Unsupported as u:
        run.broken("R16.3", dp, inst, F.loc(b, u.node if isinstance(u.node, dict) else None), str(u))
        return None
    if not (isinstance(v, sym.Variant) and v.name == "Ok" and isinstance(v.args[0], dict)):
        run.fail("R16.3", dp, "result:" + inst, where, "constructor returns %r" % (v,))
        return None
    S = v.args[0]
    cubics, ranges = S["cubics"], S["ranges"]
    if not run.check(len(cubics) == n - 1 and len(ranges) == n - 1, "R16.4", dp, "piece-count:" + inst, where, "%d pieces / %d ranges for %d knots" % (len(cubics), len(ranges), n)):
        return None
    P = [expr_of(PI.coeffs(c)) for c in cubics]
    Z = lambda e: PI.timed(lambda: sym.is_zero(e), 40, False)
    for i in range(n - 1):
        run.check(len(PI.coeffs(cubics[i])) <= 4, "R16.3", dp, "cubic:%s:piece=%d" % (inst, i), where, "piece %d has %d coefficients" % (i, len(PI.coeffs(cubics[i]))))
        run.check(Z(ranges[i][0] - xs[i]) and Z(ranges[i][1] - xs[i + 1]), "R16.4", dp, "range:%s:piece=%d" % (inst, i), where,
                  "piece %d is stored with range %s, expected (x_%d, x_%d)" % (i, ranges[i], i, i + 1), sample="%s piece %d on [x_%d, x_%d]" % (inst, i, i, i + 1))
        run.check(Z(P[i].subs(X, xs[i]) - ys[i]), "R16.3", dp, "interpolates-left:%s:piece=%d" % (inst, i), where, "S_%d(x_%d) != y_%d" % (i, i, i),
                  sample="%s: S_%d(x_%d) = y_%d" % (inst, i, i, i))
        run.check(Z(P[i].subs(X, xs[i + 1]) - ys[i + 1]), "R16.3", dp, "interpolates-right:%s:piece=%d" % (inst, i), where, "S_%d(x_%d) != y_%d" % (i, i + 1, i + 1))
    for i in range(n - 2):
        d1a, d1b = sp.diff(P[i], X).subs(X, xs[i + 1]), sp.diff(P[i + 1], X).subs(X, xs[i + 1])
        d2a, d2b = sp.diff(P[i], X, 2).subs(X, xs[i + 1]), sp.diff(P[i + 1], X, 2).subs(X, xs[i + 1])
        run.check(Z(d1a - d1b), "R16.3", dp, "C1:%s:knot=%d" % (inst, i + 1), where, "first derivative jumps at knot %d" % (i + 1), sample="%s: S' continuous at x_%d" % (inst, i + 1))
        run.check(Z(d2a - d2b), "R16.3", dp, "C2:%s:knot=%d" % (inst, i + 1), where, "second derivative jumps at knot %d" % (i + 1), sample="%s: S'' continuous at x_%d" % (inst, i + 1))
    if clamped:
        run.check(Z(sp.diff(P[0], X).subs(X, xs[0]) - f0), "R16.3", dp, "end-slope-left:" + inst, where, "S'(x_0) is not the prescribed slope", sample="%s: S'(x_0) = f_0" % inst)
        run.check(Z(sp.diff(P[-1], X).subs(X, xs[-1]) - fn_), "R16.3", dp, "end-slope-right:" + inst, where, "S'(x_n) is not the prescribed slope")
    else:
        run.check(Z(sp.diff(P[0], X, 2).subs(X, xs[0])), "R16.3", dp, "natural-left:" + inst, where, "S''(x_0) != 0", sample="%s: S''(x_0) = 0" % inst)
        run.check(Z(sp.diff(P[-1], X, 2).subs(X, xs[-1])), "R16.3", dp, "natural-right:" + inst, where, "S''(x_n) != 0")
    return S


def check_guards_and_lookup(F, run):
    tol = PI.TOL
    for fn, clamped in (("spline_free", False), ("spline_clamped", True)):
        b = F.fn("interp::spline::" + fn)
        run.analysed(b)
        dp = "interp::spline::" + fn
        extra = [(sp.Symbol("f0"), sp.Symbol("fn"))] if clamped else []
        cases = {
            "length-mismatch": [knots("rational", 3), PI.symbols("y", 2)],
            "one-point": [knots("rational", 1), PI.symbols("y", 1)],
            "empty": [[], []],
            "decreasing-knots": [[sp.Integer(0), sp.Integer(2), sp.Integer(1)], PI.symbols("y", 3)],
        }
        for name, (xs, ys) in cases.items():
            try:
                v, _ = PI.call(F, b, [list(xs), list(ys)] + extra + [tol], seconds=30)
            except vecint.IndexPanic as e:
                run.fail("R16.1", dp, "panic:" + name, F.loc(b), "abstract execution panics on invalid input (%s): %s" % (name, e.why))
                continue
            except sym.Unsupported as u:
                run.broken("R16.1", dp, name, F.loc(b, u.node if isinstance(u.node, dict) else None), str(u))
                continue
            run.check(isinstance(v, sym.Variant) and v.name == "Err", "R16.1", dp, "rejects:" + name, F.loc(b), "invalid input (%s) returns %r" % (name, v), sample="%s(%s) = Err" % (fn, name))
    # lookup on a concrete spline
    ev = [x for x in F.bodies if x["name"] == "evaluate" and "CubicSpline" in (x.get("impl_self") or "")]
    evd = [x for x in F.bodies if x["name"] == "evaluate_derivative" and "CubicSpline" in (x.get("impl_self") or "")]
    if len(ev) != 1 or len(evd) != 1:
        run.broken("R16.1", "CubicSpline", "evaluate", "src/interp/spline.rs", "evaluate/evaluate_derivative not found")
        return
    ev, evd = ev[0], evd[0]
    run.analysed(ev)
    run.analysed(evd)
    a, b_ = PI.symbols("a", 4), PI.symbols("b", 4)
    S = {"cubics": [PI.poly(a), PI.poly(b_)], "ranges": [(sp.Integer(0), sp.Integer(1)), (sp.Integer(1), sp.Integer(3))], "__struct__": "CubicSpline"}
    E = {"cubics": [], "ranges": [], "__struct__": "CubicSpline"}
    pa = lambda cs, x: sum(c * x ** k for k, c in enumerate(cs))
    for x, want in ((sp.Rational(1, 2), a), (sp.Integer(0), a), (sp.Integer(2), b_), (sp.Integer(3), b_), (sp.Integer(-1), None), (sp.Integer(4), None)):
        for body, deriv in ((ev, False), (evd, True)):
            try:
                v, _ = PI.call(F, body, [vecint.clone_val(S), x], seconds=20)
            except (sym.Unsupported, vecint.IndexPanic) as e:
                run.broken("R16.1", body["path"], "x=%s" % x, F.loc(body), str(e))
                continue
            if want is None:
                run.check(isinstance(v, sym.Variant) and v.name == "Err", "R16.1", "CubicSpline::" + body["name"], "outside-range:x=%s" % x, F.loc(body),
                          "evaluation outside the knot range returns %r" % (v,), sample="evaluate(%s) outside [0,3] = Err" % x)
            else:
                good = isinstance(v, sym.Variant) and v.name == "Ok"
                if good:
                    val = v.args[0]
                    if deriv:
                        xx = sp.Symbol("xx")
                        good = isinstance(val, tuple) and sym.is_zero(val[0] - pa(want, x)) and sym.is_zero(val[1] - sp.diff(pa(want, xx), xx).subs(xx, x))
                    else:
                        good = sym.is_zero(val - pa(want, x))
                run.check(good, "R16.1", "CubicSpline::" + body["name"], "piece-lookup:x=%s" % x, F.loc(body),
                          "evaluation at x=%s does not use the piece whose closed range contains x (got %r)" % (x, v), sample="evaluate(%s) uses the right piece" % x)
    for body in (ev, evd):
        try:
            v, _ = PI.call(F, body, [E, sp.Integer(0)], seconds=20)
            run.check(isinstance(v, sym.Variant) and v.name == "Err", "R16.1", "CubicSpline::" + body["name"], "empty-spline", F.loc(body), "empty spline evaluates to %r" % (v,))
        except (sym.Unsupported, vecint.IndexPanic) as e:
            run.broken("R16.1", body["path"], "empty", F.loc(body), str(e))


def run(F, run, tier):
    check_guards_and_lookup(F, run)
    sets = [("symbolic", 2), ("symbolic", 3), ("rational", 4), ("rational", 5)] + ([("symbolic", 4), ("rational", 6), ("rational", 7)] if tier == "thorough" else [])
    for fn, clamped in (("spline_free", False), ("spline_clamped", True)):
        for kind, n in sets:
            check_spline(F, run, fn, clamped, kind, n)
        for n_c in (3, 4) + ((5,) if tier == "thorough" else ()):       # 4 knots: the first count at which back-substitution multiplies a complex c[i+1] by a non-zero factor
            check_spline(F, run, fn, clamped, "rational", n_c, cplx=True)
        check_spline(F, run, fn, clamped, "rational", 4, cplx="imaginary")
    # consequences
    b = F.fn("interp::spline::spline_clamped")
    q = PI.symbols("q", 4)
    xs = knots("rational", 4)
    cubic = lambda x: sum(c * x ** k for k, c in enumerate(q))
    dcubic = lambda x: sum(k * c * x ** (k - 1) for k, c in enumerate(q) if k)
    try:
        v, _ = PI.call(F, b, [list(xs), [cubic(x) for x in xs], (dcubic(xs[0]), dcubic(xs[-1])), PI.TOL], seconds=90)
        ok = isinstance(v, sym.Variant) and v.name == "Ok" and all(PI.same_poly(PI.coeffs(c), q) for c in v.args[0]["cubics"])
        run.check(ok, "R16.5", "interp::spline::spline_clamped", "reproduces-cubic", F.loc(b), "a clamped spline through a cubic with its end slopes is not that cubic on every piece",
                  sample="clamped spline of cubic data = the cubic")
    except (sym.Unsupported, vecint.IndexPanic) as e:
        run.broken("R16.5", "interp::spline::spline_clamped", "reproduces-cubic", F.loc(b), str(e))
    b = F.fn("interp::spline::spline_free")
    m, c0 = sp.Symbol("m", real=True), sp.Symbol("c0", real=True)
    try:
        v, _ = PI.call(F, b, [list(xs), [m * x + c0 for x in xs], PI.TOL], seconds=90)
        ok = isinstance(v, sym.Variant) and v.name == "Ok" and all(PI.same_poly(PI.coeffs(c), [c0, m]) for c in v.args[0]["cubics"])
        run.check(ok, "R16.5", "interp::spline::spline_free", "reproduces-line", F.loc(b), "a free spline through collinear data is not that line on every piece",
                  sample="free spline of linear data = the line")
    except (sym.Unsupported, vecint.IndexPanic) as e:
        run.broken("R16.5", "interp::spline::spline_free", "reproduces-line", F.loc(b), str(e))
    run.assumptions += ["exact arithmetic (1.0/3.0 etc. read as exact rationals): rounding is not decided",
                        "knot counts up to %d (symbolic spacings up to %d knots)" % (sets[-1][1], 4 if tier == "thorough" else 3)]
    expl = ("Both constructors are evaluated abstractly on symbolic ordinates (and end slopes) over symbolic positive spacings and exact rational knots; interpolation, C1/C2 "
            "continuity at every interior knot, the end conditions, the stored ranges, reproduction of cubics/lines, the input guards and the piece lookup of evaluate / "
            "evaluate_derivative are established as identities on the constructed pieces.")
    return "other", expl, None
