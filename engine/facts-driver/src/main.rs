// facts-driver: a rustc driver that type-checks a crate exactly as cargo would and dumps the
// typed HIR (resolved callees, expression types, literals, re-sugared for/while/?) as JSON.
// It makes no judgement; every rule lives on the Python side (/verif/bsa, /verif/rules).
//
// Used as RUSTC_WORKSPACE_WRAPPER: argv = [driver, /path/to/rustc, rustc-args...].
// Output: one JSON document written with a single write to $BSA_FACTS_OUT, only for the crate
// whose name is $BSA_FACTS_CRATE (default bacon_sci).
#![feature(rustc_private)]
#![allow(clippy::all)]

extern crate rustc_ast;
extern crate rustc_driver;
extern crate rustc_hir;
extern crate rustc_interface;
extern crate rustc_middle;
extern crate rustc_span;

use rustc_driver::{Callbacks, Compilation};
use rustc_hir as hir;
use rustc_hir::def::{DefKind, Res};
use rustc_hir::def_id::{DefId, LocalDefId};
use rustc_middle::ty::{self, TyCtxt, TypeckResults};
use rustc_span::Span;

mod json;
use json::J;

struct Cb;

impl Callbacks for Cb {
    fn after_analysis<'tcx>(
        &mut self,
        _c: &rustc_interface::interface::Compiler,
        tcx: TyCtxt<'tcx>,
    ) -> Compilation {
        let want = std::env::var("BSA_FACTS_CRATE").unwrap_or_else(|_| "bacon_sci".to_string());
        let name = tcx.crate_name(rustc_hir::def_id::LOCAL_CRATE).to_string();
        if name == want {
            if let Ok(out) = std::env::var("BSA_FACTS_OUT") {
                let doc = dump(tcx, &name);
                let mut s = String::with_capacity(1 << 24);
                doc.write(&mut s);
                s.push('\n');
                std::fs::write(&out, s).expect("facts-driver: cannot write BSA_FACTS_OUT");
            }
        }
        Compilation::Continue
    }
}

fn main() {
    let mut args: Vec<String> = std::env::args().collect();
    if args.len() > 1 {
        // drop the rustc path handed over by cargo's wrapper protocol
        args.remove(1);
    }
    rustc_driver::run_compiler(&args, &mut Cb);
}

struct Cx<'tcx> {
    tcx: TyCtxt<'tcx>,
    n_expr: usize,
    n_call: usize,
    n_closure: usize,
    n_for: usize,
    n_while: usize,
    n_try: usize,
}

fn s(x: impl Into<String>) -> J {
    J::Str(x.into())
}

fn dump<'tcx>(tcx: TyCtxt<'tcx>, crate_name: &str) -> J {
    let mut cx = Cx { tcx, n_expr: 0, n_call: 0, n_closure: 0, n_for: 0, n_while: 0, n_try: 0 };
    let mut bodies = Vec::new();
    let mut n_owners = 0usize;
    for def in tcx.hir_body_owners() {
        let kind = tcx.def_kind(def);
        match kind {
            DefKind::Fn | DefKind::AssocFn | DefKind::Const { .. } | DefKind::AssocConst { .. } | DefKind::Static { .. } => {}
            _ => continue,
        }
        n_owners += 1;
        bodies.push(cx.body_owner(def, kind));
    }
    let mut adts = Vec::new();
    let mut impls = Vec::new();
    let items = tcx.hir_crate_items(());
    for def in items.definitions() {
        match tcx.def_kind(def) {
            DefKind::Struct | DefKind::Enum => adts.push(cx.adt(def)),
            DefKind::Impl { .. } => impls.push(cx.impl_(def)),
            _ => {}
        }
    }
    J::Obj(vec![
        ("nonce", s(std::env::var("BSA_FACTS_NONCE").unwrap_or_default())),
        ("crate", s(crate_name)),
        ("out_dir", s(std::env::var("OUT_DIR").unwrap_or_default())),
        ("rustc", s(option_env!("CFG_VERSION").unwrap_or("nightly"))),
        ("counts", J::Obj(vec![
            ("owners", J::Int(n_owners as i128)),
            ("exprs", J::Int(cx.n_expr as i128)),
            ("calls", J::Int(cx.n_call as i128)),
            ("closures", J::Int(cx.n_closure as i128)),
            ("for", J::Int(cx.n_for as i128)),
            ("while", J::Int(cx.n_while as i128)),
            ("try", J::Int(cx.n_try as i128)),
        ])),
        ("bodies", J::Arr(bodies)),
        ("adts", J::Arr(adts)),
        ("impls", J::Arr(impls)),
    ])
}

impl<'tcx> Cx<'tcx> {
    fn path(&self, d: DefId) -> String {
        self.tcx.def_path_str(d)
    }

    fn span(&self, sp: Span) -> J {
        let sp = if sp.from_expansion() { sp.source_callsite() } else { sp };
        let sm = self.tcx.sess.source_map();
        let lo = sm.lookup_char_pos(sp.lo());
        let hi = sm.lookup_char_pos(sp.hi());
        J::Arr(vec![
            J::Int(lo.line as i128),
            J::Int(lo.col.0 as i128 + 1),
            J::Int(hi.line as i128),
            J::Int(hi.col.0 as i128 + 1),
        ])
    }

    fn file(&self, sp: Span) -> String {
        let sp = if sp.from_expansion() { sp.source_callsite() } else { sp };
        let sm = self.tcx.sess.source_map();
        let lo = sm.lookup_char_pos(sp.lo());
        format!("{}", lo.file.name.prefer_local_unconditionally())
    }

    fn macro_name(&self, sp: Span) -> Option<String> {
        if !sp.from_expansion() {
            return None;
        }
        let d = sp.ctxt().outer_expn_data();
        match d.kind {
            rustc_span::ExpnKind::Macro(_, name) => Some(name.to_string()),
            rustc_span::ExpnKind::Desugaring(k) => Some(format!("desugar:{:?}", k)),
            _ => Some("expansion".to_string()),
        }
    }

    fn adt(&mut self, def: LocalDefId) -> J {
        let tcx = self.tcx;
        let adt = tcx.adt_def(def.to_def_id());
        let mut variants = Vec::new();
        for v in adt.variants() {
            let mut fields = Vec::new();
            for f in v.fields.iter() {
                let t = tcx.type_of(f.did).instantiate_identity().skip_norm_wip();
                fields.push(J::Obj(vec![("name", s(f.name.to_string())), ("ty", s(t.to_string()))]));
            }
            variants.push(J::Obj(vec![("name", s(v.name.to_string())), ("fields", J::Arr(fields))]));
        }
        J::Obj(vec![
            ("path", s(self.path(def.to_def_id()))),
            ("kind", s(if adt.is_enum() { "enum" } else { "struct" })),
            ("file", s(self.file(tcx.def_span(def)))),
            ("sp", self.span(tcx.def_span(def))),
            ("variants", J::Arr(variants)),
        ])
    }

    fn impl_(&mut self, def: LocalDefId) -> J {
        let tcx = self.tcx;
        let self_ty = tcx.type_of(def).instantiate_identity().skip_norm_wip();
        let tr = tcx.impl_opt_trait_ref(def.to_def_id()).map(|t| t.instantiate_identity().skip_norm_wip().to_string());
        let mut its = Vec::new();
        for it in tcx.associated_items(def.to_def_id()).in_definition_order() {
            its.push(J::Obj(vec![
                ("name", s(it.name().to_string())),
                ("path", s(self.path(it.def_id))),
            ]));
        }
        J::Obj(vec![
            ("self_ty", s(self_ty.to_string())),
            ("trait", tr.map(s).unwrap_or(J::Null)),
            ("file", s(self.file(tcx.def_span(def)))),
            ("sp", self.span(tcx.def_span(def))),
            ("items", J::Arr(its)),
        ])
    }

    fn body_owner(&mut self, def: LocalDefId, kind: DefKind) -> J {
        let tcx = self.tcx;
        let body = tcx.hir_body_owned_by(def);
        let tr = tcx.typeck(def);
        let did = def.to_def_id();
        let mut o: Vec<(&'static str, J)> = Vec::new();
        o.push(("path", s(self.path(did))));
        o.push(("name", s(tcx.item_name(did).to_string())));
        o.push(("kind", s(format!("{:?}", kind))));
        o.push(("file", s(self.file(tcx.def_span(def)))));
        o.push(("sp", self.span(body.value.span.with_lo(tcx.def_span(def).lo()))));
        if matches!(kind, DefKind::Fn | DefKind::AssocFn) {
            o.push(("vis", s(format!("{:?}", tcx.visibility(did)))));
            let sig = tcx.fn_sig(did).instantiate_identity().skip_norm_wip().skip_binder();
            o.push(("inputs", J::Arr(sig.inputs().iter().map(|t| s(t.to_string())).collect())));
            o.push(("output", s(sig.output().to_string())));
        } else {
            let t = tcx.type_of(did).instantiate_identity().skip_norm_wip();
            o.push(("ty", s(t.to_string())));
            if matches!(kind, DefKind::Const { .. }) && (t.is_floating_point() || t.is_integral() || t.is_bool())
                && let Ok(v) = tcx.const_eval_poly(did)
            {
                if let Some(sc) = v.try_to_scalar_int() {
                    o.push(("bits", s(format!("{}", sc.to_bits_unchecked()))));
                    o.push(("size", J::Int(sc.size().bytes() as i128)));
                }
            }
        }
        // container (impl / trait)
        if kind == DefKind::AssocFn || matches!(kind, DefKind::AssocConst { .. }) {
            let parent = tcx.parent(did);
            match tcx.def_kind(parent) {
                DefKind::Impl { .. } => {
                    let self_ty = tcx.type_of(parent).instantiate_identity().skip_norm_wip();
                    o.push(("impl_self", s(self_ty.to_string())));
                    if let Some(t) = tcx.impl_opt_trait_ref(parent) {
                        let t = t.instantiate_identity().skip_norm_wip();
                        o.push(("impl_trait", s(t.to_string())));
                        o.push(("impl_trait_def", s(self.path(t.def_id))));
                    }
                }
                DefKind::Trait => {
                    o.push(("in_trait", s(self.path(parent))));
                }
                _ => {}
            }
        }
        let generics = tcx.generics_of(did);
        let mut gs = Vec::new();
        for p in generics.own_params.iter() {
            gs.push(s(p.name.to_string()));
        }
        o.push(("generics", J::Arr(gs)));
        let params: Vec<J> = body.params.iter().map(|p| self.pat(p.pat, tr)).collect();
        o.push(("params", J::Arr(params)));
        let v = self.expr(body.value, tr);
        o.push(("body", v));
        J::Obj(o)
    }

    fn res(&self, r: Res, o: &mut Vec<(&'static str, J)>) {
        match r {
            Res::Local(h) => {
                o.push(("k", s("Local")));
                o.push(("id", J::Int(h.local_id.as_u32() as i128)));
                o.push(("name", s(self.tcx.hir_name(h).to_string())));
            }
            Res::Def(dk, d) => {
                o.push(("k", s("Path")));
                o.push(("def", s(self.path(d))));
                o.push(("dk", s(format!("{:?}", dk))));
                if let DefKind::Ctor(..) = dk {
                    // parent variant / struct path is the useful name
                    o.push(("ctor_of", s(self.path(self.tcx.parent(d)))));
                }
            }
            Res::SelfCtor(d) => {
                o.push(("k", s("Path")));
                o.push(("def", s(format!("SelfCtor({})", self.path(d)))));
                o.push(("dk", s("SelfCtor")));
            }
            other => {
                o.push(("k", s("Path")));
                o.push(("def", s(format!("{:?}", other))));
                o.push(("dk", s("Other")));
            }
        }
    }

    fn pat(&mut self, p: &hir::Pat<'tcx>, tr: &'tcx TypeckResults<'tcx>) -> J {
        use hir::PatKind::*;
        let mut o: Vec<(&'static str, J)> = Vec::new();
        match p.kind {
            Wild => o.push(("k", s("Wild"))),
            Missing => o.push(("k", s("Missing"))),
            Never => o.push(("k", s("Never"))),
            Binding(mode, hid, ident, sub) => {
                o.push(("k", s("Bind")));
                o.push(("id", J::Int(hid.local_id.as_u32() as i128)));
                o.push(("name", s(ident.name.to_string())));
                o.push(("mode", s(format!("{:?}", mode))));
                if let Some(sp) = sub {
                    o.push(("sub", self.pat(sp, tr)));
                }
            }
            Struct(ref qp, fields, _) => {
                o.push(("k", s("PStruct")));
                let r = tr.qpath_res(qp, p.hir_id);
                if let Res::Def(_, d) = r {
                    o.push(("def", s(self.path(d))));
                }
                let fs: Vec<J> = fields
                    .iter()
                    .map(|f| J::Obj(vec![("name", s(f.ident.name.to_string())), ("pat", self.pat(f.pat, tr))]))
                    .collect();
                o.push(("fields", J::Arr(fs)));
            }
            TupleStruct(ref qp, ps, dd) => {
                o.push(("k", s("PTupleStruct")));
                let r = tr.qpath_res(qp, p.hir_id);
                if let Res::Def(dk, d) = r {
                    let d2 = if let DefKind::Ctor(..) = dk { self.tcx.parent(d) } else { d };
                    o.push(("def", s(self.path(d2))));
                }
                o.push(("ps", J::Arr(ps.iter().map(|q| self.pat(q, tr)).collect())));
                if let Some(i) = dd.as_opt_usize() {
                    o.push(("dd", J::Int(i as i128)));
                }
            }
            Or(ps) => {
                o.push(("k", s("POr")));
                o.push(("ps", J::Arr(ps.iter().map(|q| self.pat(q, tr)).collect())));
            }
            Tuple(ps, dd) => {
                o.push(("k", s("PTuple")));
                o.push(("ps", J::Arr(ps.iter().map(|q| self.pat(q, tr)).collect())));
                if let Some(i) = dd.as_opt_usize() {
                    o.push(("dd", J::Int(i as i128)));
                }
            }
            Box(q) | Deref(q) => {
                o.push(("k", s("PDeref")));
                o.push(("p", self.pat(q, tr)));
            }
            Ref(q, _, m) => {
                o.push(("k", s("PRef")));
                o.push(("mut", J::Bool(m.is_mut())));
                o.push(("p", self.pat(q, tr)));
            }
            Expr(pe) => match pe.kind {
                hir::PatExprKind::Lit { lit, negated } => {
                    o.push(("k", s("PLit")));
                    o.push(("neg", J::Bool(negated)));
                    self.lit(&lit, &mut o);
                }
                hir::PatExprKind::Path(ref qp) => {
                    o.push(("k", s("PPath")));
                    let r = tr.qpath_res(qp, pe.hir_id);
                    if let Res::Def(dk, d) = r {
                        let d2 = if let DefKind::Ctor(..) = dk { self.tcx.parent(d) } else { d };
                        o.push(("def", s(self.path(d2))));
                    }
                }
            },
            Guard(q, e) => {
                o.push(("k", s("PGuard")));
                o.push(("p", self.pat(q, tr)));
                o.push(("e", self.expr(e, tr)));
            }
            Range(lo, hi, end) => {
                o.push(("k", s("PRange")));
                o.push(("inclusive", J::Bool(matches!(end, hir::RangeEnd::Included))));
                for (key, side) in [("lo", lo), ("hi", hi)] {
                    if let Some(pe) = side {
                        if let hir::PatExprKind::Lit { lit, negated } = pe.kind {
                            let mut q: Vec<(&'static str, J)> = Vec::new();
                            q.push(("neg", J::Bool(negated)));
                            self.lit(&lit, &mut q);
                            o.push((key, J::Obj(q)));
                        } else {
                            o.push((key, J::Obj(vec![("lit", s("other"))])));
                        }
                    }
                }
            }
            Slice(a, m, b) => {
                o.push(("k", s("PSlice")));
                o.push(("before", J::Arr(a.iter().map(|q| self.pat(q, tr)).collect())));
                if let Some(m) = m {
                    o.push(("mid", self.pat(m, tr)));
                }
                o.push(("after", J::Arr(b.iter().map(|q| self.pat(q, tr)).collect())));
            }
            Err(_) => o.push(("k", s("PErr"))),
        }
        if let Some(t) = tr.node_type_opt(p.hir_id) {
            o.push(("ty", s(t.to_string())));
        }
        J::Obj(o)
    }

    fn lit(&self, l: &hir::Lit, o: &mut Vec<(&'static str, J)>) {
        use rustc_ast::LitKind::*;
        match l.node {
            Int(v, _) => {
                o.push(("lit", s("int")));
                o.push(("v", s(format!("{}", v.get()))));
            }
            Float(sym, _) => {
                o.push(("lit", s("float")));
                o.push(("v", s(sym.to_string())));
            }
            Bool(b) => {
                o.push(("lit", s("bool")));
                o.push(("v", s(format!("{}", b))));
            }
            Str(sym, _) => {
                o.push(("lit", s("str")));
                o.push(("v", s(sym.to_string())));
            }
            Char(c) => {
                o.push(("lit", s("char")));
                o.push(("v", s(c.to_string())));
            }
            _ => {
                o.push(("lit", s("other")));
                o.push(("v", s("")));
            }
        }
    }

    fn block(&mut self, b: &hir::Block<'tcx>, tr: &'tcx TypeckResults<'tcx>, label: Option<String>) -> J {
        let mut stmts = Vec::new();
        for st in b.stmts {
            match st.kind {
                hir::StmtKind::Let(l) => {
                    let mut o: Vec<(&'static str, J)> = vec![("k", s("LetS")), ("pat", self.pat(l.pat, tr))];
                    if let Some(i) = l.init {
                        o.push(("init", self.expr(i, tr)));
                    }
                    if let Some(e) = l.els {
                        o.push(("els", self.block(e, tr, None)));
                    }
                    o.push(("sp", self.span(st.span)));
                    stmts.push(J::Obj(o));
                }
                hir::StmtKind::Item(_) => {
                    stmts.push(J::Obj(vec![("k", s("ItemS")), ("sp", self.span(st.span))]));
                }
                hir::StmtKind::Expr(e) => {
                    stmts.push(J::Obj(vec![("k", s("ExprS")), ("e", self.expr(e, tr)), ("sp", self.span(st.span))]));
                }
                hir::StmtKind::Semi(e) => {
                    stmts.push(J::Obj(vec![("k", s("Semi")), ("e", self.expr(e, tr)), ("sp", self.span(st.span))]));
                }
            }
        }
        let mut o: Vec<(&'static str, J)> = vec![("k", s("Block")), ("id", J::Int(b.hir_id.local_id.as_u32() as i128))];
        if let Some(l) = label {
            o.push(("label", s(l)));
        }
        o.push(("stmts", J::Arr(stmts)));
        if let Some(e) = b.expr {
            o.push(("expr", self.expr(e, tr)));
        }
        o.push(("sp", self.span(b.span)));
        J::Obj(o)
    }

    fn dest(&self, d: hir::Destination) -> J {
        match d.target_id {
            Ok(h) => J::Int(h.local_id.as_u32() as i128),
            Err(_) => J::Null,
        }
    }

    // `for pat in iter body` desugaring:
    //   match IntoIterator::into_iter(iter) { mut iter => loop { match Iterator::next(&mut iter)
    //   { None => break, Some(pat) => body } } }
    fn try_for(&mut self, e: &hir::Expr<'tcx>, tr: &'tcx TypeckResults<'tcx>) -> Option<J> {
        let hir::ExprKind::Match(scrut, arms, hir::MatchSource::ForLoopDesugar) = e.kind else { return None };
        let hir::ExprKind::Call(_, [iterable]) = scrut.kind else { return None };
        let [arm] = arms else { return None };
        let hir::ExprKind::Loop(blk, label, hir::LoopSource::ForLoop, _) = arm.body.kind else { return None };
        let loop_id = arm.body.hir_id.local_id.as_u32();
        let [st] = blk.stmts else { return None };
        let hir::StmtKind::Expr(inner) = st.kind else { return None };
        let hir::ExprKind::Match(_, [_none, some], hir::MatchSource::ForLoopDesugar) = inner.kind else { return None };
        let pat: &hir::Pat<'tcx> = match some.pat.kind {
            hir::PatKind::TupleStruct(_, [pat], _) => pat,
            hir::PatKind::Struct(_, [f], _) => f.pat,
            _ => return None,
        };
        self.n_for += 1;
        let mut o: Vec<(&'static str, J)> = vec![("k", s("For")), ("id", J::Int(loop_id as i128))];
        if let Some(l) = label {
            o.push(("label", s(l.ident.name.to_string())));
        }
        o.push(("pat", self.pat(pat, tr)));
        o.push(("iter", self.expr(iterable, tr)));
        o.push(("body", self.expr(some.body, tr)));
        Some(J::Obj(o))
    }

    // `while cond body`: loop { if cond body else break }
    fn try_while(&mut self, e: &hir::Expr<'tcx>, tr: &'tcx TypeckResults<'tcx>) -> Option<J> {
        let hir::ExprKind::Loop(blk, label, hir::LoopSource::While, _) = e.kind else { return None };
        if !blk.stmts.is_empty() {
            return None;
        }
        let inner = blk.expr?;
        let hir::ExprKind::If(cond, then, Some(_els)) = inner.kind else { return None };
        self.n_while += 1;
        let mut o: Vec<(&'static str, J)> = vec![("k", s("While")), ("id", J::Int(e.hir_id.local_id.as_u32() as i128))];
        if let Some(l) = label {
            o.push(("label", s(l.ident.name.to_string())));
        }
        o.push(("c", self.expr(cond, tr)));
        o.push(("body", self.expr(then, tr)));
        Some(J::Obj(o))
    }

    // `e?`: match Try::branch(e) { Continue(v) => v, Break(r) => return FromResidual::from_residual(r) }
    fn try_try(&mut self, e: &hir::Expr<'tcx>, tr: &'tcx TypeckResults<'tcx>) -> Option<J> {
        let hir::ExprKind::Match(scrut, _, hir::MatchSource::TryDesugar(_)) = e.kind else { return None };
        let hir::ExprKind::Call(_, [inner]) = scrut.kind else { return None };
        self.n_try += 1;
        Some(J::Obj(vec![("k", s("Try")), ("e", self.expr(inner, tr))]))
    }

    fn expr(&mut self, e: &hir::Expr<'tcx>, tr: &'tcx TypeckResults<'tcx>) -> J {
        use hir::ExprKind::*;
        self.n_expr += 1;
        let mut o: Vec<(&'static str, J)> = Vec::new();
        let special = self.try_for(e, tr).or_else(|| self.try_while(e, tr)).or_else(|| self.try_try(e, tr));
        if let Some(J::Obj(v)) = special {
            o = v;
        } else {
            match e.kind {
                DropTemps(inner) | Use(inner, _) | Type(inner, _) => return self.expr(inner, tr),
                Lit(l) => {
                    o.push(("k", s("Lit")));
                    self.lit(&l, &mut o);
                }
                Path(ref qp) => {
                    let r = tr.qpath_res(qp, e.hir_id);
                    self.res(r, &mut o);
                    let args = tr.node_args(e.hir_id);
                    if !args.is_empty() {
                        o.push(("gargs", J::Arr(args.iter().map(|a| s(a.to_string())).collect())));
                    }
                }
                Call(f, args) => {
                    self.n_call += 1;
                    o.push(("k", s("Call")));
                    o.push(("f", self.expr(f, tr)));
                    o.push(("args", J::Arr(args.iter().map(|a| self.expr(a, tr)).collect())));
                    if tr.is_method_call(e) {
                        if let Some(d) = tr.type_dependent_def_id(e.hir_id) {
                            o.push(("ovl", s(self.path(d))));
                        }
                    }
                }
                MethodCall(seg, recv, args, _) => {
                    self.n_call += 1;
                    o.push(("k", s("MCall")));
                    o.push(("name", s(seg.ident.name.to_string())));
                    if let Some(d) = tr.type_dependent_def_id(e.hir_id) {
                        o.push(("def", s(self.path(d))));
                        let parent = self.tcx.parent(d);
                        match self.tcx.def_kind(parent) {
                            DefKind::Trait => o.push(("of_trait", s(self.path(parent)))),
                            DefKind::Impl { .. } => {
                                let st = self.tcx.type_of(parent).instantiate_identity().skip_norm_wip();
                                o.push(("of_impl", s(st.to_string())));
                            }
                            _ => {}
                        }
                    }
                    let ga = tr.node_args(e.hir_id);
                    if !ga.is_empty() {
                        o.push(("gargs", J::Arr(ga.iter().map(|a| s(a.to_string())).collect())));
                    }
                    o.push(("recv", self.expr(recv, tr)));
                    o.push(("args", J::Arr(args.iter().map(|a| self.expr(a, tr)).collect())));
                }
                Tup(es) => {
                    o.push(("k", s("Tup")));
                    o.push(("es", J::Arr(es.iter().map(|a| self.expr(a, tr)).collect())));
                }
                Array(es) => {
                    o.push(("k", s("Array")));
                    o.push(("es", J::Arr(es.iter().map(|a| self.expr(a, tr)).collect())));
                }
                Repeat(el, n) => {
                    o.push(("k", s("Repeat")));
                    o.push(("e", self.expr(el, tr)));
                    let t = tr.expr_ty(e);
                    if let ty::Array(_, len) = t.kind() {
                        o.push(("n", s(len.to_string())));
                    }
                    let _ = n;
                }
                Binary(op, l, r) => {
                    o.push(("k", s("Bin")));
                    o.push(("op", s(format!("{:?}", op.node))));
                    o.push(("l", self.expr(l, tr)));
                    o.push(("r", self.expr(r, tr)));
                    if tr.is_method_call(e) {
                        if let Some(d) = tr.type_dependent_def_id(e.hir_id) {
                            o.push(("ovl", s(self.path(d))));
                        }
                    }
                }
                Unary(op, x) => {
                    o.push(("k", s("Un")));
                    o.push(("op", s(format!("{:?}", op))));
                    o.push(("e", self.expr(x, tr)));
                    if tr.is_method_call(e) {
                        if let Some(d) = tr.type_dependent_def_id(e.hir_id) {
                            o.push(("ovl", s(self.path(d))));
                        }
                    }
                }
                Cast(x, _) => {
                    o.push(("k", s("Cast")));
                    o.push(("e", self.expr(x, tr)));
                }
                Let(l) => {
                    o.push(("k", s("Let")));
                    o.push(("pat", self.pat(l.pat, tr)));
                    o.push(("init", self.expr(l.init, tr)));
                }
                If(c, t, el) => {
                    o.push(("k", s("If")));
                    o.push(("c", self.expr(c, tr)));
                    o.push(("t", self.expr(t, tr)));
                    if let Some(x) = el {
                        o.push(("e", self.expr(x, tr)));
                    }
                }
                Loop(b, label, src, _) => {
                    o.push(("k", s("Loop")));
                    o.push(("id", J::Int(e.hir_id.local_id.as_u32() as i128)));
                    o.push(("src", s(format!("{:?}", src))));
                    if let Some(l) = label {
                        o.push(("label", s(l.ident.name.to_string())));
                    }
                    o.push(("body", self.block(b, tr, None)));
                }
                Match(x, arms, src) => {
                    o.push(("k", s("Match")));
                    o.push(("src", s(format!("{:?}", src))));
                    o.push(("e", self.expr(x, tr)));
                    let mut as_ = Vec::new();
                    for a in arms {
                        let mut ao: Vec<(&'static str, J)> = vec![("pat", self.pat(a.pat, tr))];
                        if let Some(g) = a.guard {
                            ao.push(("guard", self.expr(g, tr)));
                        }
                        ao.push(("body", self.expr(a.body, tr)));
                        as_.push(J::Obj(ao));
                    }
                    o.push(("arms", J::Arr(as_)));
                }
                Closure(c) => {
                    self.n_closure += 1;
                    o.push(("k", s("Closure")));
                    o.push(("def", s(self.path(c.def_id.to_def_id()))));
                    let body = self.tcx.hir_body(c.body);
                    o.push(("params", J::Arr(body.params.iter().map(|p| self.pat(p.pat, tr)).collect())));
                    o.push(("body", self.expr(body.value, tr)));
                }
                Block(b, label) => {
                    return {
                        let mut j = self.block(b, tr, label.map(|l| l.ident.name.to_string()));
                        if let J::Obj(ref mut v) = j {
                            v.push(("ty", s(tr.expr_ty(e).to_string())));
                        }
                        j
                    };
                }
                Assign(l, r, _) => {
                    o.push(("k", s("Assign")));
                    o.push(("l", self.expr(l, tr)));
                    o.push(("r", self.expr(r, tr)));
                }
                AssignOp(op, l, r) => {
                    o.push(("k", s("AssignOp")));
                    o.push(("op", s(format!("{:?}", op.node))));
                    o.push(("l", self.expr(l, tr)));
                    o.push(("r", self.expr(r, tr)));
                    if tr.is_method_call(e) {
                        if let Some(d) = tr.type_dependent_def_id(e.hir_id) {
                            o.push(("ovl", s(self.path(d))));
                        }
                    }
                }
                Field(x, id) => {
                    o.push(("k", s("Field")));
                    o.push(("e", self.expr(x, tr)));
                    o.push(("name", s(id.name.to_string())));
                }
                Index(x, i, _) => {
                    o.push(("k", s("Index")));
                    o.push(("e", self.expr(x, tr)));
                    o.push(("i", self.expr(i, tr)));
                    if tr.is_method_call(e) {
                        if let Some(d) = tr.type_dependent_def_id(e.hir_id) {
                            o.push(("ovl", s(self.path(d))));
                        }
                    }
                }
                AddrOf(_, m, x) => {
                    o.push(("k", s("Ref")));
                    o.push(("mut", J::Bool(m.is_mut())));
                    o.push(("e", self.expr(x, tr)));
                }
                Break(d, x) => {
                    o.push(("k", s("Break")));
                    o.push(("target", self.dest(d)));
                    if let Some(x) = x {
                        o.push(("e", self.expr(x, tr)));
                    }
                }
                Continue(d) => {
                    o.push(("k", s("Continue")));
                    o.push(("target", self.dest(d)));
                }
                Ret(x) => {
                    o.push(("k", s("Ret")));
                    if let Some(x) = x {
                        o.push(("e", self.expr(x, tr)));
                    }
                }
                Struct(qp, fields, tail) => {
                    o.push(("k", s("Struct")));
                    let r = tr.qpath_res(qp, e.hir_id);
                    if let Res::Def(_, d) = r {
                        o.push(("def", s(self.path(d))));
                    } else {
                        o.push(("def", s(tr.expr_ty(e).to_string())));
                    }
                    let fs: Vec<J> = fields
                        .iter()
                        .map(|f| J::Obj(vec![("name", s(f.ident.name.to_string())), ("e", self.expr(f.expr, tr))]))
                        .collect();
                    o.push(("fields", J::Arr(fs)));
                    if let hir::StructTailExpr::Base(b) = tail {
                        o.push(("base", self.expr(b, tr)));
                    }
                }
                ConstBlock(_) => o.push(("k", s("ConstBlock"))),
                Become(_) => o.push(("k", s("Become"))),
                InlineAsm(_) => o.push(("k", s("InlineAsm"))),
                OffsetOf(..) => o.push(("k", s("OffsetOf"))),
                Yield(..) => o.push(("k", s("Yield"))),
                UnsafeBinderCast(..) => o.push(("k", s("UnsafeBinderCast"))),
                Err(_) => o.push(("k", s("Err"))),
            }
        }
        o.push(("ty", s(tr.expr_ty(e).to_string())));
        let adj = tr.expr_adjustments(e);
        if !adj.is_empty() {
            if let Some(last) = adj.last() {
                o.push(("aty", s(last.target.to_string())));
            }
        }
        o.push(("sp", self.span(e.span)));
        if let Some(m) = self.macro_name(e.span) {
            o.push(("mac", s(m)));
        }
        J::Obj(o)
    }
}
