// Minimal JSON value + writer (no dependencies).
pub enum J {
    Null,
    Bool(bool),
    Int(i128),
    Str(String),
    Arr(Vec<J>),
    Obj(Vec<(&'static str, J)>),
}

fn esc(s: &str, out: &mut String) {
    out.push('"');
    for c in s.chars() {
        match c {
            '"' => out.push_str("\\\""),
            '\\' => out.push_str("\\\\"),
            '\n' => out.push_str("\\n"),
            '\r' => out.push_str("\\r"),
            '\t' => out.push_str("\\t"),
            c if (c as u32) < 0x20 => out.push_str(&format!("\\u{:04x}", c as u32)),
            c => out.push(c),
        }
    }
    out.push('"');
}

impl J {
    pub fn write(&self, out: &mut String) {
        match self {
            J::Null => out.push_str("null"),
            J::Bool(b) => out.push_str(if *b { "true" } else { "false" }),
            J::Int(i) => out.push_str(&i.to_string()),
            J::Str(s) => esc(s, out),
            J::Arr(v) => {
                out.push('[');
                for (i, x) in v.iter().enumerate() {
                    if i > 0 {
                        out.push(',');
                    }
                    x.write(out);
                }
                out.push(']');
            }
            J::Obj(v) => {
                out.push('{');
                for (i, (k, x)) in v.iter().enumerate() {
                    if i > 0 {
                        out.push(',');
                    }
                    esc(k, out);
                    out.push(':');
                    x.write(out);
                }
                out.push('}');
            }
        }
    }
}
