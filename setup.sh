#!/bin/sh
# Offline setup: build the facts driver and warm the dependency cache of the private target dir.
set -e
here=$(cd "$(dirname "$0")" && pwd)
cd "$here/engine/facts-driver"
CARGO_NET_OFFLINE=true cargo +nightly build --release --offline
cd "$here"
if [ -x /opt/veriftools/pyvenv/bin/python ]; then PY=/opt/veriftools/pyvenv/bin/python; else PY=python3; fi
"$PY" -B -c "
from bsa import build
f, m = build.get_facts('thorough')
print('facts ok:', m['counts'])
"
