"""Independent parser of the bundled NIST CODATA listing (does not use build.rs's fixed columns).

A data row is `name  <gap>  value  <gap>  uncertainty  <gap>  [unit]` where a gap is two or more blanks;
single blanks occur inside names ("alpha particle mass"), digit groups ("6.644 657 3357 e-27") and units
("J T^-1").  The data block starts after the dashed rule that follows the header naming the four columns.
"""
import re
from fractions import Fraction


def parse_number(txt):
    """'6.644 657 3357 e-27' / '1.054 571 817... e-34' / '(exact)' -> exact Fraction."""
    t = txt.strip()
    if t == "(exact)":
        return Fraction(0)
    t = t.replace("...", "").replace(" ", "")
    m = re.fullmatch(r"([+-]?)(\d+)(?:\.(\d*))?(?:[eE]([+-]?\d+))?", t)
    if not m:
        raise ValueError("unparseable number %r" % txt)
    sign, ip, fp, ex = m.groups()
    fp = fp or ""
    v = Fraction(int(ip + fp), 10 ** len(fp)) * Fraction(10) ** int(ex or 0)
    return -v if sign == "-" else v


def parse_listing(path):
    lines = open(path, encoding="utf-8").read().split("\n")
    hdr = None
    for i, l in enumerate(lines):
        if all(w in l for w in ("Quantity", "Value", "Uncertainty", "Unit")):
            hdr = i
            break
    if hdr is None:
        raise ValueError("header line not found")
    rule = hdr + 1
    if not (lines[rule].strip() and set(lines[rule].strip()) == {"-"}):
        raise ValueError("dashed rule does not follow the header")
    rows = {}
    order = []
    for ln, l in enumerate(lines[rule + 1:], start=rule + 2):
        if not l.strip():
            continue
        parts = re.split(r"\s{2,}", l.rstrip())
        if len(parts) == 3:
            parts.append("")
        if len(parts) != 4:
            raise ValueError("line %d: %d fields" % (ln, len(parts)))
        name, val, unc, unit = parts
        if name in rows:
            raise ValueError("duplicate quantity %r" % name)
        rows[name] = {"value": parse_number(val), "uncertainty": parse_number(unc), "unit": unit,
                      "exact": unc.strip() == "(exact)", "line": ln, "value_txt": val, "unc_txt": unc}
        order.append(name)
    return rows, {"header_line": hdr + 1, "first_data_line": rule + 2, "rows": len(order)}
