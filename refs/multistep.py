"""Adams–Bashforth / Adams–Moulton weights and BDF coefficients generated from their definitions (exact)."""
from fractions import Fraction


def _poly_mul(p, q):
    out = [Fraction(0)] * (len(p) + len(q) - 1)
    for i, a in enumerate(p):
        for j, b in enumerate(q):
            out[i + j] += a * b
    return out


def _lagrange_basis(nodes, k):
    """Coefficients (ascending) of the Lagrange basis polynomial ℓ_k on `nodes`."""
    p = [Fraction(1)]
    for j, xj in enumerate(nodes):
        if j == k:
            continue
        d = Fraction(nodes[k] - xj)
        p = _poly_mul(p, [Fraction(-xj) / d, Fraction(1) / d])
    return p


def _integrate(p, a, b):
    return sum(c * (Fraction(b) ** (i + 1) - Fraction(a) ** (i + 1)) / (i + 1) for i, c in enumerate(p))


def adams_bashforth(k):
    """Weights β_0..β_{k-1} with y_{n+1} = y_n + h Σ β_j f_{n-j} (β_0 multiplies the newest derivative)."""
    nodes = [-j for j in range(k)]
    return [_integrate(_lagrange_basis(nodes, j), 0, 1) for j in range(k)]


def adams_moulton(k):
    """Weights β_{-1}, β_0..β_{k-1}: y_{n+1} = y_n + h (β_{-1} f_{n+1} + Σ β_j f_{n-j}); k history points."""
    nodes = [1] + [-j for j in range(k)]
    return [_integrate(_lagrange_basis(nodes, j), 0, 1) for j in range(k + 1)]


def bdf(k):
    """(β, [α_1..α_k]) with y_{n+1} + Σ_{j=1..k} α_j y_{n+1-j} = β h f(t_{n+1}, y_{n+1})  (unit leading coefficient)."""
    # derivative at node 0 of the interpolant through nodes 0,-1,..,-k:  Σ_j ℓ_j'(0) y_j = h f
    nodes = [-j for j in range(k + 1)]
    d = []
    for j in range(k + 1):
        p = _lagrange_basis(nodes, j)
        d.append(p[1] if len(p) > 1 else Fraction(0))   # derivative at 0 = linear coefficient
    lead = d[0]
    return Fraction(1) / lead, [x / lead for x in d[1:]]


assert adams_bashforth(4) == [Fraction(55, 24), Fraction(-59, 24), Fraction(37, 24), Fraction(-9, 24)]
assert adams_moulton(2) == [Fraction(5, 12), Fraction(8, 12), Fraction(-1, 12)]
assert bdf(2) == (Fraction(2, 3), [Fraction(-4, 3), Fraction(1, 3)])
