"""Rooted-tree order conditions for Runge–Kutta methods, in exact rationals.

A tree is the sorted tuple of its children's trees; the single vertex is ().  For a tableau (A, b):
  Φ_i(•) = 1,   Φ_i([t1..tm]) = Π_k Σ_j a_ij Φ_j(t_k),    γ(•) = 1,  γ(t) = |t| Π γ(t_k)
and the method has order p iff Σ_i b_i Φ_i(t) = 1/γ(t) for every tree with |t| ≤ p.
Self-check: the number of trees per order must be 1, 1, 2, 4, 9 (validated on import).
"""
from fractions import Fraction
from functools import lru_cache
from itertools import combinations_with_replacement


@lru_cache(None)
def trees(n):
    """All rooted trees with n vertices."""
    if n == 1:
        return ((),)
    out = set()
    # partitions of n-1 into child sizes
    def parts(total, maxpart):
        if total == 0:
            yield ()
            return
        for p in range(min(total, maxpart), 0, -1):
            for rest in parts(total - p, p):
                yield (p,) + rest
    for part in parts(n - 1, n - 1):
        # choose trees for each size, multiset-wise
        def build(idx, acc):
            if idx == len(part):
                out.add(tuple(sorted(acc)))
                return
            for t in trees(part[idx]):
                build(idx + 1, acc + [t])
        build(0, [])
    return tuple(sorted(out))


def order_of(t):
    return 1 + sum(order_of(c) for c in t)


def gamma(t):
    g = order_of(t)
    for c in t:
        g *= gamma(c)
    return g


def phi(A, t):
    s = len(A)
    if t == ():
        return [Fraction(1)] * s
    out = [Fraction(1)] * s
    for c in t:
        pc = phi(A, c)
        for i in range(s):
            out[i] *= sum(A[i][j] * pc[j] for j in range(s))
    return out


def show(t):
    return "[" + "".join(show(c) for c in t) + "]" if t else "•"


def residuals(A, b, p):
    """[(tree, Σ b_i Φ_i − 1/γ)] for all trees of order ≤ p."""
    out = []
    for n in range(1, p + 1):
        for t in trees(n):
            ph = phi(A, t)
            out.append((t, sum(bi * x for bi, x in zip(b, ph)) - Fraction(1, gamma(t))))
    return out


assert [len(trees(n)) for n in range(1, 6)] == [1, 1, 2, 4, 9]

F = Fraction
# Published tableaux (validated by the order conditions on every run by rules/c03.py)
FEHLBERG45 = {
    "c": [F(0), F(1, 4), F(3, 8), F(12, 13), F(1), F(1, 2)],
    "A": [[0, 0, 0, 0, 0, 0],
          [F(1, 4), 0, 0, 0, 0, 0],
          [F(3, 32), F(9, 32), 0, 0, 0, 0],
          [F(1932, 2197), F(-7200, 2197), F(7296, 2197), 0, 0, 0],
          [F(439, 216), F(-8), F(3680, 513), F(-845, 4104), 0, 0],
          [F(-8, 27), F(2), F(-3544, 2565), F(1859, 4104), F(-11, 40), 0]],
    "b": [F(25, 216), F(0), F(1408, 2565), F(2197, 4104), F(-1, 5), F(0)],       # order 4 (propagated)
    "bhat": [F(16, 135), F(0), F(6656, 12825), F(28561, 56430), F(-9, 50), F(2, 55)],  # order 5
    "p": 4, "phat": 5,
}
BOGACKI_SHAMPINE32 = {
    "c": [F(0), F(1, 2), F(3, 4), F(1)],
    "A": [[0, 0, 0, 0], [F(1, 2), 0, 0, 0], [0, F(3, 4), 0, 0], [F(2, 9), F(1, 3), F(4, 9), 0]],
    "b": [F(2, 9), F(1, 3), F(4, 9), F(0)],           # order 3 (propagated)
    "bhat": [F(7, 24), F(1, 4), F(1, 3), F(1, 8)],    # order 2
    "p": 3, "phat": 2,
}
RK4 = {
    "c": [F(0), F(1, 2), F(1, 2), F(1)],
    "A": [[0, 0, 0, 0], [F(1, 2), 0, 0, 0], [0, F(1, 2), 0, 0], [0, 0, F(1), 0]],
    "b": [F(1, 6), F(1, 3), F(1, 3), F(1, 6)],
    "p": 4,
}


def validate_reference(tab):
    A = [[Fraction(x) for x in row] for row in tab["A"]]
    bad = [t for t, r in residuals(A, tab["b"], tab["p"]) if r != 0]
    if "bhat" in tab:
        bad += [t for t, r in residuals(A, tab["bhat"], tab["phat"]) if r != 0]
    bad += [i for i, row in enumerate(A) if sum(row) != tab["c"][i]]
    return not bad
