"""Reference Gaussian rules and exact moments, derived from first principles with mpmath.

Nodes/weights come from the Golub–Welsch eigenproblem of the Jacobi matrix of the three-term recurrence
(closed forms for both Chebyshev families).  Every reference rule is validated against the exact moments
of its weight function before it is used (`validate`), so a slip in this file cannot pass silently.
"""
import mpmath
from mpmath import mp, mpf


def moments(family, kmax):
    """Exact moments ∫ x^k w(x) dx, k = 0..kmax, as mpf."""
    out = []
    for k in range(kmax + 1):
        if family == "legendre":           # w = 1 on (-1,1)
            out.append(mpf(0) if k % 2 else mpf(2) / (k + 1))
        elif family == "hermite":          # w = exp(-x^2) on R
            out.append(mpf(0) if k % 2 else mpmath.gamma(mpf(k + 1) / 2))
        elif family == "laguerre":         # w = exp(-x) on (0,inf)
            out.append(mpmath.factorial(k))
        elif family == "chebyshev1":       # w = 1/sqrt(1-x^2)
            out.append(mpf(0) if k % 2 else mp.pi * mpmath.binomial(k, k // 2) / mpf(2) ** k)
        elif family == "chebyshev2":       # w = sqrt(1-x^2)
            if k % 2:
                out.append(mpf(0))
            else:
                m = k // 2
                out.append(mp.pi * mpmath.binomial(2 * m, m) / (mpf(2) ** (2 * m + 1) * (m + 1)))
        else:
            raise ValueError(family)
    return out


DOMAIN = {"legendre": (-1, 1), "chebyshev1": (-1, 1), "chebyshev2": (-1, 1), "hermite": (None, None), "laguerre": (0, None)}


def rule(family, n):
    """[(node, weight)] sorted by node, at the current mp precision."""
    if family == "chebyshev1":
        r = [(mpmath.cos((2 * i - 1) * mp.pi / (2 * n)), mp.pi / n) for i in range(1, n + 1)]
        return sorted(r, key=lambda t: t[0])
    if family == "chebyshev2":
        r = [(mpmath.cos(i * mp.pi / (n + 1)), mp.pi / (n + 1) * mpmath.sin(i * mp.pi / (n + 1)) ** 2) for i in range(1, n + 1)]
        return sorted(r, key=lambda t: t[0])
    if family == "legendre":
        a = [mpf(0)] * n
        b = [mpf(i * i) / (4 * i * i - 1) for i in range(1, n)]
        mu0 = mpf(2)
    elif family == "hermite":
        a = [mpf(0)] * n
        b = [mpf(i) / 2 for i in range(1, n)]
        mu0 = mpmath.sqrt(mp.pi)
    elif family == "laguerre":
        a = [mpf(2 * i + 1) for i in range(n)]
        b = [mpf(i * i) for i in range(1, n)]
        mu0 = mpf(1)
    else:
        raise ValueError(family)
    J = mpmath.zeros(n, n)
    for i in range(n):
        J[i, i] = a[i]
    for i in range(n - 1):
        s = mpmath.sqrt(b[i])
        J[i, i + 1] = s
        J[i + 1, i] = s
    E, Q = mp.eigsy(J)
    r = [(E[i], mu0 * Q[0, i] ** 2) for i in range(n)]
    return sorted(r, key=lambda t: t[0])


def validate(family, n, r):
    """Max relative defect of the reference rule against the exact moments 0..2n-1 (should be ~10^-dps)."""
    mom = moments(family, 2 * n - 1)
    worst = mpf(0)
    for k, m in enumerate(mom):
        s = sum(w * x ** k for x, w in r)
        scale = sum(abs(w) * abs(x) ** k for x, w in r) + mpf(10) ** (-20) * sum(abs(w) for x, w in r)
        worst = max(worst, abs(s - m) / scale)
    return worst


def tanh_sinh(level, j):
    """(weight, abscissa) of the double-exponential rule as the library consumes it.

    Level 0 has step 1 and the points t = 1, 2, ...; level L ≥ 1 has step h = 2^-L and the *new* points
    t = (2j+1)·h.  x = tanh(π/2·sinh t),  w = h·(π/2)·cosh t / cosh²(π/2·sinh t).
    """
    if level == 0:
        h = mpf(1)
        t = mpf(j + 1)
    else:
        h = mpf(2) ** (-level)
        t = (2 * j + 1) * h
    u = mp.pi / 2 * mpmath.sinh(t)
    x = mpmath.tanh(u)
    w = h * (mp.pi / 2) * mpmath.cosh(t) / mpmath.cosh(u) ** 2
    return w, x
